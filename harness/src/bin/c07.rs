//! C07 — homology of chain complexes with PLANTED homology vs. the planted truth (oracle, naive arithmetic
//! in this file) vs. the Lean checker / independent rank-torsion computation (through request lines).
//!
//!   C1 --d1--> C2 --d2--> C3,   d1 = U·D1·V (n×m),  d2 = W·[0 | D2]·U⁻¹ (k×n),
//!   D1 = diag(a_1 | a_2 | … | a_r1),  D2 = diag(b_1 | … | b_r2),  U, V, W random products of elementary matrices.
//!
//! Truth by construction: H(C2) = R^(n-r1-r2) ⊕ ⊕_{a_i non-unit} R/a_i,  H(C1) = R^(m-r1),
//! H(C3) = R^(k-r2) ⊕ ⊕_{b_i non-unit} R/b_i.
use std::fmt::Display;
use std::panic::{catch_unwind, AssertUnwindSafe};

use num_bigint::BigInt;
use num_traits::{One, Zero};
use yui::lc::Lc;
use yui::poly::Poly;
use yui::{EisenInt, EucRing, EucRingOps, GaussInt, QuadInt, Ratio, FF, FF2};
use yui_homology::utils::HomologyCalc;
use yui_homology::{ChainComplexTrait, EnumGen, GenericChainComplex, GridTrait, Summand, SummandTrait};
use yui_matrix::sparse::{MatTrait, SpMat, SpVec, Trans};
use yv::*;

// ---------------------------------------------------------------------------------------------------------
// dense matrices of the harness (row-major), naive arithmetic
// ---------------------------------------------------------------------------------------------------------

#[derive(Clone, Debug, PartialEq)]
struct D<R> { r: usize, c: usize, e: Vec<R> }

impl<R> D<R>
where R: EucRing, for<'x> &'x R: EucRingOps<R> {
    fn zero(r: usize, c: usize) -> Self { D { r, c, e: vec![R::zero(); r * c] } }
    fn id(n: usize) -> Self { let mut m = Self::zero(n, n); for i in 0..n { m.e[i * n + i] = R::one(); } m }
    fn at(&self, i: usize, j: usize) -> &R { &self.e[i * self.c + j] }
    fn set(&mut self, i: usize, j: usize, a: R) { let c = self.c; self.e[i * c + j] = a; }
    fn mul(&self, b: &D<R>) -> D<R> {
        assert_eq!(self.c, b.r);
        let mut m = D::zero(self.r, b.c);
        for i in 0..self.r { for j in 0..b.c {
            let mut s = R::zero();
            for k in 0..self.c { s = s + self.at(i, k) * b.at(k, j); }
            m.set(i, j, s);
        } }
        m
    }
    fn is_zero(&self) -> bool { self.e.iter().all(|a| a.is_zero()) }
    fn is_id(&self) -> bool {
        self.r == self.c && (0..self.r).all(|i| (0..self.c).all(|j| if i == j { self.at(i, j).is_one() } else { self.at(i, j).is_zero() }))
    }
    fn sp(&self) -> SpMat<R> { SpMat::from_dense_data((self.r, self.c), self.e.iter().cloned()) }
    fn from_sp(m: &SpMat<R>) -> D<R> {
        let (r, c) = m.shape();
        let mut d = D::zero(r, c);
        for (i, j, a) in m.iter() { d.set(i, j, a.clone()); }
        d
    }
    fn col(&self, j: usize) -> Vec<R> { (0..self.r).map(|i| self.at(i, j).clone()).collect() }
    fn apply(&self, v: &[R]) -> Vec<R> {
        assert_eq!(self.c, v.len());
        (0..self.r).map(|i| { let mut s = R::zero(); for k in 0..self.c { s = s + self.at(i, k) * &v[k]; } s }).collect()
    }
    fn show(&self) -> String where R: Display {
        let rows: Vec<String> = (0..self.r).map(|i| (0..self.c).map(|j| format!("{}", self.at(i, j))).collect::<Vec<_>>().join(",")).collect();
        format!("{}x{}[{}]", self.r, self.c, rows.join(";"))
    }
    // elementary operations (used to build U together with U⁻¹)
    fn add_row(&mut self, i: usize, j: usize, c: &R) { for k in 0..self.c { let x = self.at(i, k) + &(c * self.at(j, k)); self.set(i, k, x); } }
    fn add_col(&mut self, i: usize, j: usize, c: &R) { for k in 0..self.r { let x = self.at(k, i) + &(c * self.at(k, j)); self.set(k, i, x); } }
    fn swap_rows(&mut self, i: usize, j: usize) { for k in 0..self.c { let (a, b) = (self.at(i, k).clone(), self.at(j, k).clone()); self.set(i, k, b); self.set(j, k, a); } }
    fn swap_cols(&mut self, i: usize, j: usize) { for k in 0..self.r { let (a, b) = (self.at(k, i).clone(), self.at(k, j).clone()); self.set(k, i, b); self.set(k, j, a); } }
    fn mul_row(&mut self, i: usize, u: &R) { for k in 0..self.c { let x = u * self.at(i, k); self.set(i, k, x); } }
    fn mul_col(&mut self, i: usize, u: &R) { for k in 0..self.r { let x = self.at(k, i) * u; self.set(k, i, x); } }
}

// ---------------------------------------------------------------------------------------------------------
// the rings
// ---------------------------------------------------------------------------------------------------------

trait HRing: EucRing + Display + Send + Sync + 'static
where for<'x> &'x Self: EucRingOps<Self> {
    fn name() -> &'static str;
    /// `Some(0)`: entries are integers, `Some(p)`: representatives of F_p (sent to the Lean driver); `None`: not sent
    fn lean_p() -> Option<u32> { None }
    fn lean_txt(&self) -> String { unreachable!() }
    fn is_field() -> bool;
    /// arbitrary small element (may be zero); `lvl` scales the magnitude
    fn rnd(r: &mut Rng, lvl: u32) -> Self;
    fn rnd_unit(r: &mut Rng) -> Self;
    /// harness-side definition of "non-zero non-unit"
    fn nonunit(&self) -> bool;
    /// fixed-width representation: arithmetic may overflow (a panic whose message says so is not a finding)
    fn bounded() -> bool;
    fn char0() -> bool { true }
}

fn rnd_nonunit<R: HRing>(r: &mut Rng, lvl: u32) -> R
where for<'x> &'x R: EucRingOps<R> {
    loop { let x = R::rnd(r, lvl); if x.nonunit() { return x } }
}
fn rnd_nonzero<R: HRing>(r: &mut Rng, lvl: u32) -> R
where for<'x> &'x R: EucRingOps<R> {
    loop { let x = R::rnd(r, lvl); if !x.is_zero() { return x } }
}

fn small(r: &mut Rng, lvl: u32) -> i64 {
    let b = match lvl { 0 => 1, 1 => 2, 2 => 5, 3 => 30, _ => 1000 };
    r.range(-b, b)
}

macro_rules! impl_int { ($t:ty, $name:expr) => {
    impl HRing for $t {
        fn name() -> &'static str { $name }
        fn lean_p() -> Option<u32> { Some(0) }
        fn lean_txt(&self) -> String { self.to_string() }
        fn is_field() -> bool { false }
        fn rnd(r: &mut Rng, lvl: u32) -> Self { small(r, lvl) as $t }
        fn rnd_unit(r: &mut Rng) -> Self { if r.bool() { 1 } else { -1 } }
        fn nonunit(&self) -> bool { *self > 1 || *self < -1 }
        fn bounded() -> bool { true }
    }
} }
impl_int!(i64, "i64");
impl_int!(i128, "i128");

impl HRing for BigInt {
    fn name() -> &'static str { "BigInt" }
    fn lean_p() -> Option<u32> { Some(0) }
    fn lean_txt(&self) -> String { self.to_string() }
    fn is_field() -> bool { false }
    fn rnd(r: &mut Rng, lvl: u32) -> Self {
        if lvl >= 5 {
            // big entries: up to ~ 10^(20·(lvl-4)) with random sign
            let digits = 1 + r.below(20 * (lvl as u64 - 4)) as usize;
            let mut s = String::new();
            if r.bool() { s.push('-'); }
            s.push((b'1' + r.below(9) as u8) as char);
            for _ in 1..digits { s.push((b'0' + r.below(10) as u8) as char); }
            if r.chance(1, 6) { BigInt::zero() } else { s.parse().unwrap() }
        } else { BigInt::from(small(r, lvl)) }
    }
    fn rnd_unit(r: &mut Rng) -> Self { BigInt::from(if r.bool() { 1 } else { -1 }) }
    fn nonunit(&self) -> bool { *self > BigInt::one() || *self < -BigInt::one() }
    fn bounded() -> bool { false }
}

impl HRing for Ratio<i64> {
    fn name() -> &'static str { "Ratio<i64>" }
    fn is_field() -> bool { true }
    fn rnd(r: &mut Rng, lvl: u32) -> Self { let d = 1 + r.below(if lvl >= 2 { 3 } else { 1 }) as i64; Ratio::new(small(r, lvl.min(2)), d) }
    fn rnd_unit(r: &mut Rng) -> Self { rnd_nonzero::<Self>(r, 1) }
    fn nonunit(&self) -> bool { false }
    fn bounded() -> bool { true }
}

impl HRing for FF2 {
    fn name() -> &'static str { "FF2" }
    fn lean_p() -> Option<u32> { Some(2) }
    fn lean_txt(&self) -> String { self.to_string() }
    fn is_field() -> bool { true }
    fn rnd(r: &mut Rng, _: u32) -> Self { FF2::from(r.below(2) as i64) }
    fn rnd_unit(_: &mut Rng) -> Self { FF2::from(1i64) }
    fn nonunit(&self) -> bool { false }
    fn bounded() -> bool { false }
    fn char0() -> bool { false }
}

macro_rules! impl_ff { ($p:expr, $name:expr) => {
    impl HRing for FF<$p> {
        fn name() -> &'static str { $name }
        fn lean_p() -> Option<u32> { Some($p) }
        fn lean_txt(&self) -> String { self.rep().to_string() }
        fn is_field() -> bool { true }
        fn rnd(r: &mut Rng, _: u32) -> Self { FF::<$p>::new(r.below($p) as i32) }
        fn rnd_unit(r: &mut Rng) -> Self { FF::<$p>::new(1 + r.below($p - 1) as i32) }
        fn nonunit(&self) -> bool { false }
        fn bounded() -> bool { false }
        fn char0() -> bool { false }
    }
} }
impl_ff!(3, "FF<3>");
impl_ff!(5, "FF<5>");

fn quad_norm<const DD: i32>(z: &QuadInt<i64, DD>) -> i64 {
    let (a, b) = (*z.left(), *z.right());
    if DD == -1 { a * a + b * b } else { a * a + a * b + b * b }
}
macro_rules! impl_quad { ($d:expr, $name:expr) => {
    impl HRing for QuadInt<i64, $d> {
        fn name() -> &'static str { $name }
        fn is_field() -> bool { false }
        fn rnd(r: &mut Rng, lvl: u32) -> Self { let l = lvl.min(2); if r.chance(1, 3) { QuadInt::new(small(r, l), 0) } else { QuadInt::new(small(r, l), small(r, l)) } }
        fn rnd_unit(r: &mut Rng) -> Self { let w = Self::omega(); let mut u = Self::one(); for _ in 0..r.below(12) { u = &u * &w; } u }
        fn nonunit(&self) -> bool { quad_norm(self) > 1 }
        fn bounded() -> bool { true }
    }
} }
impl_quad!(-1, "GaussInt<i64>");
impl_quad!(-3, "EisenInt<i64>");

type PQ = Poly<'x', Ratio<i64>>;
type PF3 = Poly<'x', FF<3>>;

fn mk_poly<R>(cs: Vec<R>) -> Poly<'x', R>
where R: yui::Ring, for<'a> &'a R: yui::RingOps<R> {
    Poly::from_iter(cs.into_iter().enumerate().map(|(i, c)| (Poly::<'x', R>::mono(i), c)))
}
impl HRing for PQ {
    fn name() -> &'static str { "Poly<x,Ratio<i64>>" }
    fn is_field() -> bool { false }
    fn rnd(r: &mut Rng, lvl: u32) -> Self {
        let deg = r.below(if lvl >= 2 { 3 } else { 2 }) as usize;
        mk_poly((0..=deg).map(|_| Ratio::new(small(r, 1), 1)).collect())
    }
    fn rnd_unit(r: &mut Rng) -> Self { Poly::from_const(Ratio::new(*r.pick(&[1i64, -1, 2, -2, 1, 3]), *r.pick(&[1i64, 1, 2]))) }
    fn nonunit(&self) -> bool { !self.is_zero() && self.lead_deg() >= 1 }
    fn bounded() -> bool { true }
}
impl HRing for PF3 {
    fn name() -> &'static str { "Poly<x,FF<3>>" }
    fn is_field() -> bool { false }
    fn rnd(r: &mut Rng, lvl: u32) -> Self {
        let deg = r.below(if lvl >= 2 { 4 } else { 2 }) as usize;
        mk_poly((0..=deg).map(|_| FF::<3>::new(r.below(3) as i32)).collect())
    }
    fn rnd_unit(r: &mut Rng) -> Self { Poly::from_const(FF::<3>::new(1 + r.below(2) as i32)) }
    fn nonunit(&self) -> bool { !self.is_zero() && self.lead_deg() >= 1 }
    fn bounded() -> bool { false }
    fn char0() -> bool { false }
}

// ---------------------------------------------------------------------------------------------------------
// planted complexes
// ---------------------------------------------------------------------------------------------------------

/// random invertible matrix with its inverse, as a product of `ops` elementary matrices
fn rnd_unimodular<R: HRing>(r: &mut Rng, n: usize, ops: usize, lvl: u32) -> (D<R>, D<R>)
where for<'x> &'x R: EucRingOps<R> {
    let (mut u, mut ui) = (D::<R>::id(n), D::<R>::id(n));
    if n == 0 { return (u, ui) }
    for _ in 0..ops {
        match r.below(6) {
            0 if n >= 2 => { let (i, j) = two(r, n); u.swap_rows(i, j); ui.swap_cols(i, j); }
            1 => { let i = r.below(n as u64) as usize; let w = R::rnd_unit(r); let wi = w.inv().expect("unit"); u.mul_row(i, &w); ui.mul_col(i, &wi); }
            _ if n >= 2 => { let (i, j) = two(r, n); let c = R::rnd(r, lvl); u.add_row(i, j, &c); ui.add_col(j, i, &(-c)); }
            _ => {}
        }
    }
    (u, ui)
}
fn two(r: &mut Rng, n: usize) -> (usize, usize) {
    let i = r.below(n as u64) as usize;
    let mut j = r.below(n as u64 - 1) as usize;
    if j >= i { j += 1 }
    (i, j)
}

/// divisibility chain u_1, …, u_s (units), c_1, c_1c_2, … (t non-units), each times a random unit
fn rnd_chain<R: HRing>(r: &mut Rng, len: usize, t: usize, lvl: u32) -> Vec<R>
where for<'x> &'x R: EucRingOps<R> {
    let t = if R::is_field() { 0 } else { t.min(len) };
    let mut v = vec![];
    let mut acc = R::one();
    for i in 0..len {
        if i >= len - t { acc = &acc * &rnd_nonunit::<R>(r, lvl); }
        v.push(&acc * &R::rnd_unit(r));
    }
    v
}

#[derive(Clone)]
struct Planted<R> { d1: D<R>, d2: D<R>, a: Vec<R>, b: Vec<R> }

struct Shape { m: usize, n: usize, k: usize, r1: usize, r2: usize, t1: usize, t2: usize, ops: usize, lvl: u32 }

fn plant<R: HRing>(r: &mut Rng, s: &Shape) -> Planted<R>
where for<'x> &'x R: EucRingOps<R> {
    let (m, n, k) = (s.m, s.n, s.k);
    assert!(s.r1 <= m.min(n) && s.r2 <= (n - s.r1).min(k));
    let mut a = rnd_chain::<R>(r, s.r1, s.t1, s.lvl);
    let b = rnd_chain::<R>(r, s.r2, s.t2, s.lvl);
    // now and then plant the torsion in "elementary divisor" form: the diagonal entries share factors pairwise but
    // are not a divisibility chain (the planted truth is their chain form), so the SNF has to merge them
    let mut diag1 = a.clone();
    if !R::is_field() && s.t1 >= 2 && r.chance(1, 3) {
        let t = s.t1.min(s.r1);
        for i in (s.r1 - t)..s.r1 {
            let mut e = R::one();
            for _ in 0..(1 + r.below(3)) { e = &e * &rnd_nonunit::<R>(r, s.lvl.min(2)); }
            diag1[i] = e;
        }
        let mut ch = diag1.clone();
        for i in 0..ch.len() { for j in (i + 1)..ch.len() {
            let g = R::gcd(&ch[i], &ch[j]);
            if !g.is_zero() { let l = &ch[i] * &(&ch[j] / &g); ch[i] = g; ch[j] = l; }
        } }
        a = ch;
    }
    let mut dd1 = D::<R>::zero(n, m);
    for (i, x) in diag1.iter().enumerate() { dd1.set(i, i, x.clone()); }
    let mut dd2 = D::<R>::zero(k, n);
    for (i, x) in b.iter().enumerate() { dd2.set(i, s.r1 + i, x.clone()); }
    let (u, ui) = rnd_unimodular::<R>(r, n, s.ops, s.lvl.min(2));
    let (v, _) = rnd_unimodular::<R>(r, m, s.ops, s.lvl.min(2));
    let (w, _) = rnd_unimodular::<R>(r, k, s.ops, s.lvl.min(2));
    assert!(u.mul(&ui).is_id(), "harness: U·U⁻¹ ≠ I");
    let d1 = u.mul(&dd1).mul(&v);
    let d2 = w.mul(&dd2).mul(&ui);
    assert!(d2.mul(&d1).is_zero(), "harness: d2·d1 ≠ 0");
    Planted { d1, d2, a, b }
}

// ---------------------------------------------------------------------------------------------------------
// oracle
// ---------------------------------------------------------------------------------------------------------

fn associates<R: HRing>(x: &R, y: &R) -> bool
where for<'x> &'x R: EucRingOps<R> {
    !x.is_zero() && !y.is_zero() && (y % x).is_zero() && (x % y).is_zero()
}

/// multiset equality up to units
fn tors_match<R: HRing>(got: &[R], want: &[R]) -> bool
where for<'x> &'x R: EucRingOps<R> {
    if got.len() != want.len() { return false }
    let mut used = vec![false; got.len()];
    'outer: for w in want {
        for (i, g) in got.iter().enumerate() {
            if !used[i] && associates(g, w) { used[i] = true; continue 'outer }
        }
        return false
    }
    true
}

fn vec_show<R: Display>(v: &[R]) -> String { format!("[{}]", v.iter().map(|a| a.to_string()).collect::<Vec<_>>().join(",")) }

fn divisible<R: HRing>(x: &R, by: &R) -> bool
where for<'x> &'x R: EucRingOps<R> { !by.is_zero() && (x % by).is_zero() }

/// all matrix-level clauses of the property for one answer `(rank, tors, P, Q)` to `(d_in, d_out)`;
/// `want_rank`, `want_tors`: planted truth (None: not known by construction)
#[allow(clippy::too_many_arguments)]
fn oracle_answer<R: HRing>(s: &mut Sink, r: &mut Rng, what: &str, input: &str, d_in: &D<R>, d_out: &D<R>,
    rank: usize, tors: &[R], p: &D<R>, q: &D<R>, want: Option<(usize, &[R])>, lvl: u32)
where for<'x> &'x R: EucRingOps<R> {
    let n = d_in.r;
    let dim = rank + tors.len();
    if let Some((wr, wt)) = want {
        s.oracle(rank == wr, &format!("{what}: free rank = n - rank(d_in) - rank(d_out)"), input, &format!("got rank {rank}, planted {wr}"));
        s.oracle(tors_match(tors, wt), &format!("{what}: torsion = non-unit invariant factors of d_in up to units"), input,
            &format!("got {} planted {}", vec_show(tors), vec_show(wt)));
    }
    s.oracle(tors.iter().all(|a| a.nonunit()), &format!("{what}: torsion orders are non-zero non-units"), input, &vec_show(tors));
    let shapes = p.r == dim && p.c == n && q.r == n && q.c == dim;
    s.oracle(shapes, &format!("{what}: coordinate maps have shape (rank+t) x n and n x (rank+t)"), input,
        &format!("P {}x{} Q {}x{} n={} dim={}", p.r, p.c, q.r, q.c, n, dim));
    if !shapes { return }
    s.oracle(p.mul(q).is_id(), &format!("{what}: coordinates of the generators are the standard basis (P·Q = I)"), input,
        &format!("P={} Q={}", p.show(), q.show()));
    s.oracle(d_out.mul(q).is_zero(), &format!("{what}: reported generators are cycles (d_out·Q = 0)"), input, &format!("Q={}", q.show()));
    // P·d_in: free rows zero, torsion rows divisible
    let pd = p.mul(d_in);
    let mut ok = true;
    for i in 0..pd.r { for j in 0..pd.c {
        let x = pd.at(i, j);
        ok &= if i < rank { x.is_zero() } else { divisible(x, &tors[i - rank]) };
    } }
    s.oracle(ok, &format!("{what}: boundaries have zero coordinates modulo the torsion orders (P·d_in)"), input,
        &format!("P·d_in={} tors={}", pd.show(), vec_show(tors)));
    // a random boundary
    let x: Vec<R> = (0..d_in.c).map(|_| R::rnd(r, lvl.min(3))).collect();
    let v = p.apply(&d_in.apply(&x));
    let ok = v.iter().enumerate().all(|(i, a)| if i < rank { a.is_zero() } else { divisible(a, &tors[i - rank]) });
    s.oracle(ok, &format!("{what}: a random boundary has zero coordinates modulo the torsion orders"), input,
        &format!("x={} coords={}", vec_show(&x), vec_show(&v)));
}

fn spvec<R: HRing>(v: &[R]) -> SpVec<R>
where for<'x> &'x R: EucRingOps<R> {
    SpVec::from_entries(v.len(), v.iter().cloned().enumerate())
}

/// canonical torsion text for the Lean line (integers: absolute values, ascending)
fn tors_txt<R: HRing>(t: &[R]) -> String
where for<'x> &'x R: EucRingOps<R> {
    if t.is_empty() { return "-".into() }
    let mut v: Vec<BigInt> = t.iter().map(|a| { let x: BigInt = a.lean_txt().parse().unwrap(); if x < BigInt::zero() { -x } else { x } }).collect();
    v.sort();
    v.iter().map(|a| a.to_string()).collect::<Vec<_>>().join(",")
}
fn mat_line<R: HRing>(m: &D<R>) -> String
where for<'x> &'x R: EucRingOps<R> {
    let mut s = format!("{} {}", m.r, m.c);
    for a in &m.e { s.push(' '); s.push_str(&a.lean_txt()); }
    s
}

/// Lean request for one answer; the implementation's reply carries its rank and (normalised) torsion
fn lean_case<R: HRing>(s: &mut Sink, d_in: &D<R>, d_out: &D<R>, rank: usize, tors: &[R], p: &D<R>, q: &D<R>)
where for<'x> &'x R: EucRingOps<R> {
    let Some(pp) = R::lean_p() else { return };
    let tl: Vec<String> = tors.iter().map(|a| a.lean_txt()).collect();
    let req = format!("hc {} {} {} {} {}{}{} {} {}", pp, mat_line(d_in), mat_line(d_out), rank, tors.len(),
        if tl.is_empty() { "" } else { " " }, tl.join(" "), mat_line(p), mat_line(q));
    let reply = format!("chk=ok rank={} tors={}", rank, tors_txt(tors));
    s.case(&req, &reply, d_in.r > 0 && (!d_in.is_zero() || !d_out.is_zero()));
    s.count("lean.hc");
}

fn panic_msg(e: Box<dyn std::any::Any + Send>) -> String {
    if let Some(s) = e.downcast_ref::<&str>() { s.to_string() }
    else if let Some(s) = e.downcast_ref::<String>() { s.clone() }
    else { "?".into() }
}

/// run `f`; `Err(msg)` on panic
fn guard_msg<T>(f: impl FnOnce() -> T) -> Result<T, String> {
    catch_unwind(AssertUnwindSafe(f)).map_err(panic_msg)
}

/// a panic of a fixed-width ring that reports an arithmetic overflow is the type's limit, not a finding
fn classify_panic<R: HRing>(s: &mut Sink, what: &str, input: &str, msg: &str)
where for<'x> &'x R: EucRingOps<R> {
    if R::bounded() && msg.contains("overflow") {
        s.count(&format!("overflow-skip.{}", R::name()));
    } else {
        s.oracle(false, &format!("{what}: the implementation panicked on a valid complex"), input, msg);
    }
}

// ---------------------------------------------------------------------------------------------------------
// the two observation paths
// ---------------------------------------------------------------------------------------------------------

/// `HomologyCalc::calculate(d1, d2, true)` (+ the `with_trans = false` variant)
fn run_direct<R: HRing>(s: &mut Sink, r: &mut Rng, tag: &str, d1: &D<R>, d2: &D<R>, want: Option<(usize, &[R])>, lvl: u32)
where for<'x> &'x R: EucRingOps<R> {
    let input = format!("ring={} {} d1={} d2={}", R::name(), tag, d1.show(), d2.show());
    let what = "calculate";
    s.count(&format!("direct.{}", R::name()));
    s.count(&format!("direct.n={}", d1.r));
    let (a, b) = (d1.sp(), d2.sp());
    let res = guard_msg(move || HomologyCalc::<R>::calculate(a, b, true));
    let (rank, tors, trans) = match res {
        Ok(x) => x,
        Err(msg) => { classify_panic::<R>(s, what, &input, &msg); s.eval_only(&input, true); return }
    };
    let Some(trans) = trans else {
        s.oracle(false, "calculate(.., true) returns the coordinate maps", &input, "None");
        return
    };
    let p = D::from_sp(&trans.forward_mat());
    let q = D::from_sp(&trans.backward_mat());
    oracle_answer(s, r, what, &input, d1, d2, rank, &tors, &p, &q, want, lvl);
    // Trans::forward / backward agree with the matrices on vectors
    if p.r == rank + tors.len() && p.c == d1.r && q.r == d1.r && q.c == p.r {
        for k in 0..q.c {
            let g = trans.backward(&SpVec::unit(q.c, k));
            let gd = g.to_dense();
            s.oracle(gd == q.col(k), "calculate: Trans::backward(e_k) = k-th generator column", &input, &format!("k={k}"));
            let e = trans.forward(&g).to_dense();
            let ek: Vec<R> = (0..q.c).map(|i| if i == k { R::one() } else { R::zero() }).collect();
            s.oracle(e == ek, "calculate: coordinates of generator k are e_k", &input, &format!("k={k} got {}", vec_show(&e)));
            s.oracle(d2.apply(&gd).iter().all(|a| a.is_zero()), "calculate: generator k is a cycle", &input, &format!("k={k} gen={}", vec_show(&gd)));
        }
    }
    // without transformations: same rank / torsion
    let (a, b) = (d1.sp(), d2.sp());
    match guard_msg(move || HomologyCalc::<R>::calculate(a, b, false)) {
        Ok((rank2, tors2, t2)) => {
            s.oracle(rank2 == rank && tors_match(&tors2, &tors) && t2.is_none(), "calculate(.., false) reports the same rank and torsion, no maps", &input,
                &format!("with: {} {} without: {} {}", rank, vec_show(&tors), rank2, vec_show(&tors2)));
            if let Some((wr, wt)) = want {
                s.oracle(rank2 == wr && tors_match(&tors2, wt), "calculate(.., false): rank and torsion equal the planted ones", &input,
                    &format!("got {} {} planted {} {}", rank2, vec_show(&tors2), wr, vec_show(wt)));
            }
        }
        Err(msg) => classify_panic::<R>(s, "calculate(.., false)", &input, &msg),
    }
    if R::lean_p().is_some() { lean_case(s, d1, d2, rank, &tors, &p, &q); } else { s.eval_only(&input, true); }
}

fn lc_of<R: HRing>(deg: isize, v: &[R]) -> Lc<EnumGen<isize>, R>
where for<'x> &'x R: EucRingOps<R> {
    Lc::from_iter(v.iter().enumerate().filter(|(_, a)| !a.is_zero()).map(|(j, a)| (EnumGen(deg, j), a.clone())))
}
fn lc_is_zero<R: HRing>(z: &Lc<EnumGen<isize>, R>) -> bool
where for<'x> &'x R: EucRingOps<R> { z.iter().all(|(_, a)| a.is_zero()) }

/// the `GenericChainComplex::generate(..).homology()` path through `Summand::{gen, vectorize, devectorize}`.
/// `ds[i]` = d_matrix(i) : C_i -> C_{i-1} for i = 0..=top (ds[0] has 0 rows); `want[i]` = planted (rank, tors) of H_i.
fn run_complex<R: HRing>(s: &mut Sink, r: &mut Rng, tag: &str, ds: &[D<R>], want: &[Option<(usize, Vec<R>)>], lvl: u32, reduced: bool)
where for<'x> &'x R: EucRingOps<R> {
    let top = ds.len() as isize - 1;
    let path = if reduced { "reduced().homology()" } else { "homology()" };
    let input = format!("ring={} {} complex{} d_i: {}", R::name(), tag, if reduced { " (reduced first)" } else { "" }, ds.iter().map(|d| d.show()).collect::<Vec<_>>().join(" "));
    s.count(&format!("complex{}.{}", if reduced { "-reduced" } else { "" }, R::name()));
    let mats: Vec<SpMat<R>> = ds.iter().map(|d| d.sp()).collect();
    let built = guard_msg(move || {
        let c = GenericChainComplex::<R>::generate(0..=top, -1, |i| mats[i as usize].clone());
        // `reduced()` composes the reduction maps with the homology maps (Trans::merged with several factors)
        let c = if reduced { c.reduced() } else { c };
        let h = c.homology();
        (c, h)
    });
    let (c, h) = match built {
        Ok(x) => x,
        Err(msg) => { classify_panic::<R>(s, path, &input, &msg); s.eval_only(&input, true); return }
    };
    for i in 0..=top {
        let iu = i as usize;
        let hi: &Summand<EnumGen<isize>, R> = h.get(i);
        let what = format!("{path}[{i}]");
        let d_out = &ds[iu];
        let d_in = if i < top { ds[iu + 1].clone() } else { D::zero(ds[iu].c, 0) };
        let (rank, tors) = (hi.rank(), hi.tors().to_vec());
        let dim = rank + tors.len();
        let res = guard_msg(|| {
            let p = D::from_sp(&hi.trans().forward_mat());
            let q = D::from_sp(&hi.trans().backward_mat());
            (p, q)
        });
        let (p, q) = match res { Ok(x) => x, Err(msg) => { classify_panic::<R>(s, &what, &input, &msg); continue } };
        let w = want[iu].as_ref().map(|(a, b)| (*a, &b[..]));
        oracle_answer(s, r, &what, &input, &d_in, d_out, rank, &tors, &p, &q, w, lvl);
        // through the Summand API
        let api = guard_msg(|| {
            let mut fails: Vec<(String, String)> = vec![];
            for k in 0..dim {
                let z = hi.gen(k);
                let dz = c.d(i, &z);
                if !lc_is_zero(&dz) { fails.push(("gen(k) is a cycle: d(gen k) = 0".into(), format!("k={k} z={z} dz={dz}"))); }
                let v = hi.vectorize(&z).to_dense();
                let ek: Vec<R> = (0..dim).map(|j| if j == k { R::one() } else { R::zero() }).collect();
                if v != ek { fails.push(("vectorize(gen k) = e_k".into(), format!("k={k} got {}", vec_show(&v)))); }
            }
            // devectorize then vectorize = id on homology coordinates
            let v: Vec<R> = (0..dim).map(|_| R::rnd(r, lvl.min(3))).collect();
            let z = hi.devectorize(&spvec(&v));
            if !lc_is_zero(&c.d(i, &z)) { fails.push(("devectorize(v) is a cycle".into(), format!("v={}", vec_show(&v)))); }
            let v2 = hi.vectorize(&z).to_dense();
            if v2 != v { fails.push(("vectorize(devectorize v) = v".into(), format!("v={} got {}", vec_show(&v), vec_show(&v2)))); }
            // a boundary d(x), x in C_{i+1}
            if i < top {
                let x: Vec<R> = (0..ds[iu + 1].c).map(|_| R::rnd(r, lvl.min(3))).collect();
                let bx = c.d(i + 1, &lc_of(i + 1, &x));
                let v = hi.vectorize(&bx).to_dense();
                let ok = v.iter().enumerate().all(|(j, a)| if j < rank { a.is_zero() } else { divisible(a, &tors[j - rank]) });
                if !ok { fails.push(("vectorize(d x) = 0 modulo the torsion orders".into(), format!("x={} coords={}", vec_show(&x), vec_show(&v)))); }
                if !tors.is_empty() {
                    let ve = hi.vectorize_euc(&bx);
                    if !ve.is_zero() { fails.push(("vectorize_euc(d x) = 0".into(), format!("x={}", vec_show(&x)))); }
                }
            }
            fails
        });
        match api {
            Ok(fails) => {
                s.oracle(fails.is_empty(), &format!("{what}: Summand::gen / vectorize / devectorize satisfy the generator clauses"), &input,
                    &fails.iter().map(|(a, b)| format!("{a}: {b}")).collect::<Vec<_>>().join(" | "));
            }
            Err(msg) => classify_panic::<R>(s, &what, &input, &msg),
        }
        if R::lean_p().is_some() && p.r == dim && p.c == d_in.r && q.r == d_in.r && q.c == dim {
            lean_case(s, &d_in, d_out, rank, &tors, &p, &q);
        } else { s.eval_only(&format!("{input} deg={i}"), true); }
    }
}

fn nonunits<R: HRing>(v: &[R]) -> Vec<R>
where for<'x> &'x R: EucRingOps<R> { v.iter().filter(|a| a.nonunit()).cloned().collect() }

fn run_planted<R: HRing>(s: &mut Sink, r: &mut Rng, sh: &Shape, tag: &str)
where for<'x> &'x R: EucRingOps<R> {
    let made = guard_msg(|| plant::<R>(r, sh));
    let pl = match made {
        Ok(p) => p,
        Err(msg) => {
            // overflow while *constructing* the input in a fixed-width ring: not a case
            assert!(R::bounded() && msg.contains("overflow"), "harness bug while planting: {msg}");
            s.count(&format!("plant-overflow.{}", R::name()));
            return
        }
    };
    let tag = format!("{tag} shape=(m={},n={},k={},r1={},r2={})", sh.m, sh.n, sh.k, sh.r1, sh.r2);
    s.count(&format!("shape.r1={}", sh.r1.min(9)));
    s.count(&format!("shape.r2={}", sh.r2.min(9)));
    s.count(&format!("shape.free={}", (sh.n - sh.r1 - sh.r2).min(9)));
    let ta = nonunits(&pl.a);
    let tb = nonunits(&pl.b);
    s.count(&format!("shape.tors={}", ta.len()));
    run_direct(s, r, &tag, &pl.d1, &pl.d2, Some((sh.n - sh.r1 - sh.r2, &ta)), sh.lvl);
    // as a complex: degree 2 = C1, 1 = C2, 0 = C3
    let ds = vec![D::zero(0, sh.k), pl.d2.clone(), pl.d1.clone()];
    let want = vec![Some((sh.k - sh.r2, tb)), Some((sh.n - sh.r1 - sh.r2, ta)), Some((sh.m - sh.r1, vec![]))];
    run_complex(s, r, &tag, &ds, &want, sh.lvl, false);
    if r.chance(1, 2) { run_complex(s, r, &tag, &ds, &want, sh.lvl, true); }
}

/// longer planted complexes C_L -> … -> C_1 -> C_0: d_i = U_{i-1}·D_i·U_i⁻¹, where in the adapted basis of C_i the first
/// r_{i+1} coordinates are the image of d_{i+1}, the next r_i are mapped by a divisibility chain onto the first r_i of C_{i-1}.
fn run_long<R: HRing>(s: &mut Sink, r: &mut Rng, len: usize, maxdim: usize, lvl: u32, tag: &str)
where for<'x> &'x R: EucRingOps<R> {
    let made = guard_msg(|| {
        let dims: Vec<usize> = (0..=len).map(|_| if r.chance(1, 10) { 0 } else { r.below(maxdim as u64 + 1) as usize }).collect();
        // ranks: rk[i] = rank d_i (i = 1..=len), rk[0] = rk[len+1] = 0
        let mut rk = vec![0usize; len + 2];
        for i in 1..=len {
            let room = dims[i - 1] - rk[i - 1].min(dims[i - 1]);   // C_{i-1} must still hold the image: r_i <= n_{i-1} - r_{i-1}
            let mx = room.min(dims[i]);
            rk[i] = match r.below(4) { 0 => 0, 1 => mx, _ => r.below(mx as u64 + 1) as usize };
        }
        let us: Vec<(D<R>, D<R>)> = dims.iter().map(|&n| { let ops = r.below(n as u64 + 2) as usize; rnd_unimodular::<R>(r, n, ops, lvl.min(2)) }).collect();
        let mut ds: Vec<D<R>> = vec![D::zero(0, dims[0])];
        let mut chains: Vec<Vec<R>> = vec![vec![]];
        for i in 1..=len {
            let nt = r.below(rk[i].min(2) as u64 + 1) as usize;
            let ch = rnd_chain::<R>(r, rk[i], nt, lvl);
            let mut dd = D::<R>::zero(dims[i - 1], dims[i]);
            // the source block of C_i starts after the image block of d_{i+1}; since r_{i+1} is not known yet when r_i is
            // drawn, the source block is placed at the END of C_i and the image block at the START (they never overlap
            // because r_{i+1} <= n_i - r_i)
            for (j, x) in ch.iter().enumerate() { dd.set(j, dims[i] - rk[i] + j, x.clone()); }
            ds.push(us[i - 1].0.mul(&dd).mul(&us[i].1));
            chains.push(ch);
        }
        for i in 1..len { assert!(ds[i].mul(&ds[i + 1]).is_zero(), "harness: d·d ≠ 0 in a long complex"); }
        let want: Vec<Option<(usize, Vec<R>)>> = (0..=len).map(|i| {
            let tors = if i < len { nonunits(&chains[i + 1]) } else { vec![] };
            Some((dims[i] - rk[i] - rk[i + 1], tors))
        }).collect();
        (ds, want)
    });
    let (ds, want) = match made {
        Ok(x) => x,
        Err(msg) => {
            assert!(R::bounded() && msg.contains("overflow"), "harness bug while planting: {msg}");
            s.count(&format!("plant-overflow.{}", R::name()));
            return
        }
    };
    s.count(&format!("long.len={len}"));
    let reduced = r.chance(1, 3);
    run_complex(s, r, tag, &ds, &want, lvl, reduced);
}

fn rnd_shape(r: &mut Rng, maxdim: usize, lvl: u32, ops_mul: usize) -> Shape {
    let dim = |r: &mut Rng| -> usize { if r.chance(1, 8) { 0 } else { r.below(maxdim as u64 + 1) as usize } };
    let (m, n, k) = (dim(r), dim(r), dim(r));
    let r1max = m.min(n);
    let r1 = match r.below(5) { 0 => 0, 1 => r1max, _ => r.below(r1max as u64 + 1) as usize };
    let r2max = (n - r1).min(k);
    let r2 = match r.below(5) { 0 => 0, 1 => r2max, _ => r.below(r2max as u64 + 1) as usize };
    let t1 = r.below(r1.min(3) as u64 + 1) as usize;
    let t2 = r.below(r2.min(3) as u64 + 1) as usize;
    let ops = r.below((ops_mul * maxdim) as u64 + 1) as usize;
    Shape { m, n, k, r1, r2, t1, t2, ops, lvl }
}

// built-in complexes of generic/complex.rs
fn run_builtin<R: HRing>(s: &mut Sink, r: &mut Rng, char2: bool)
where for<'x> &'x R: EucRingOps<R> {
    let two = R::one() + R::one();
    let tors2: Vec<R> = if two.nonunit() { vec![two] } else { vec![] };
    // expected (rank, tors) per degree
    let rp2: Vec<(usize, Vec<R>)> = if char2 { vec![(1, vec![]), (1, vec![]), (1, vec![])] } else { vec![(1, vec![]), (0, tors2.clone()), (0, vec![])] };
    let list: Vec<(&str, GenericChainComplex<R>, Vec<(usize, Vec<R>)>)> = vec![
        ("one", GenericChainComplex::<R>::one(), vec![(1, vec![])]),
        ("d3", GenericChainComplex::<R>::d3(), vec![(1, vec![]), (0, vec![]), (0, vec![]), (0, vec![])]),
        ("s2", GenericChainComplex::<R>::s2(), vec![(1, vec![]), (0, vec![]), (1, vec![])]),
        ("t2", GenericChainComplex::<R>::t2(), vec![(1, vec![]), (2, vec![]), (1, vec![])]),
        ("rp2", GenericChainComplex::<R>::rp2(), rp2),
    ];
    for (name, c, want) in list {
        let top = want.len() - 1;
        let ds: Vec<D<R>> = (0..=top).map(|i| D::from_sp(&c.d_matrix(i as isize))).collect();
        let want: Vec<Option<(usize, Vec<R>)>> = want.into_iter().map(Some).collect();
        run_complex(s, r, &format!("builtin={name}"), &ds, &want, 1, false);
        run_complex(s, r, &format!("builtin={name}"), &ds, &want, 1, true);
        // and each degree directly
        for i in 0..=top {
            let d_in = if i < top { ds[i + 1].clone() } else { D::zero(ds[i].c, 0) };
            let w = want[i].as_ref().map(|(a, b)| (*a, &b[..]));
            run_direct(s, r, &format!("builtin={name} deg={i}"), &d_in, &ds[i], w, 1);
        }
        s.count(&format!("builtin.{name}"));
    }
}

/// hand-written boundary cases (integers)
fn corpus<R: HRing>(s: &mut Sink, r: &mut Rng)
where for<'x> &'x R: EucRingOps<R> {
    let z = |r_: usize, c: usize| D::<R>::zero(r_, c);
    let e = |x: i64| -> R { let mut a = R::zero(); let one = R::one(); for _ in 0..x.abs() { a = a + &one; } if x < 0 { -a } else { a } };
    let m = |r_: usize, c: usize, v: &[i64]| D::<R> { r: r_, c, e: v.iter().map(|&x| e(x)).collect() };
    let nf = !R::is_field();
    let t = |v: &[i64]| -> Vec<R> { if nf { v.iter().map(|&x| e(x)).filter(|a| a.nonunit()).collect() } else { vec![] } };
    // all sizes zero
    run_direct(s, r, "corpus=empty", &z(0, 0), &z(0, 0), Some((0, &[])), 1);
    // zero maps: trivial-result shortcut
    run_direct(s, r, "corpus=zero-maps", &z(3, 2), &z(4, 3), Some((3, &[])), 1);
    run_direct(s, r, "corpus=no-C1-C3", &z(2, 0), &z(0, 2), Some((2, &[])), 1);
    // d1 = 0, d2 != 0 (r1 = 0 branch)
    run_direct(s, r, "corpus=d1-zero", &z(2, 1), &m(1, 2, &[1, 1]), Some((1, &[])), 1);
    // d2 = 0, d1 = (2): Z/2
    // (planted truth only in characteristic 0; over F_p the Lean side decides)
    let char0 = R::char0();
    let (t2, t2612, t3) = (t(&[2]), t(&[2, 6, 12]), t(&[3]));
    run_direct(s, r, "corpus=Z/2", &m(1, 1, &[2]), &z(0, 1), char0.then_some((0, &t2[..])), 1);
    run_direct(s, r, "corpus=Z/2+Z/6+Z/12", &m(3, 3, &[2, 4, 4, -6, 6, 12, 10, -4, -16]), &z(1, 3), char0.then_some((0, &t2612[..])), 1);
    // unit and non-unit factors, plus a free part
    run_direct(s, r, "corpus=1,3,0", &m(3, 3, &[1, 0, 0, 0, 3, 0, 0, 0, 0]), &z(0, 3), char0.then_some((1, &t3[..])), 1);
    // exact
    run_direct(s, r, "corpus=exact", &m(2, 1, &[1, 1]), &m(1, 2, &[1, -1]), Some((0, &[])), 1);
    // full-rank d1, wide
    run_direct(s, r, "corpus=wide", &m(2, 3, &[1, 2, 3, 4, 5, 6]), &z(0, 2), None, 1);
    let ds = vec![z(0, 1), m(1, 1, &[0]), m(1, 2, &[1, -1])];
    run_complex(s, r, "corpus=complex", &ds, &[Some((1, vec![])), Some((0, vec![])), Some((1, vec![]))], 1, false);
    run_complex(s, r, "corpus=complex", &ds, &[Some((1, vec![])), Some((0, vec![])), Some((1, vec![]))], 1, true);
}

/// exhaustive small spaces: every 2x2 `d1` with entries in `vals` (d2 = 0), and every pair (d1: 2x1, d2: 1x2) with
/// d2·d1 = 0.  No planted truth: rank/torsion are decided by the Lean side, the generator clauses by the oracle.
fn exhaustive<R: HRing>(s: &mut Sink, r: &mut Rng, vals: &[i64])
where for<'x> &'x R: EucRingOps<R> {
    let e = |x: i64| -> R { let mut a = R::zero(); let one = R::one(); for _ in 0..x.abs() { a = a + &one; } if x < 0 { -a } else { a } };
    let vs: Vec<R> = vals.iter().map(|&x| e(x)).collect();
    let k = vs.len();
    for idx in 0..k * k * k * k {
        let es: Vec<R> = (0..4).map(|p| vs[(idx / k.pow(p)) % k].clone()).collect();
        let d1 = D::<R> { r: 2, c: 2, e: es.clone() };
        run_direct(s, r, "exhaustive=2x2", &d1, &D::zero(0, 2), None, 1);
        let d1 = D::<R> { r: 2, c: 1, e: es[0..2].to_vec() };
        let d2 = D::<R> { r: 1, c: 2, e: es[2..4].to_vec() };
        if d2.mul(&d1).is_zero() { run_direct(s, r, "exhaustive=2x1,1x2", &d1, &d2, None, 1); }
    }
    s.count(&format!("exhaustive.{}", R::name()));
}

/// malformed: shapes that do not compose must be rejected (assert), answer of the code model: `panic`
fn malformed<R: HRing>(s: &mut Sink, r: &mut Rng)
where for<'x> &'x R: EucRingOps<R> {
    let (n1, m, n2, k) = (r.below(4) as usize, r.below(4) as usize, r.below(4) as usize, r.below(4) as usize);
    let (a, b) = (D::<R>::zero(n1, m).sp(), D::<R>::zero(k, n2).sp());
    let got = guard(move || HomologyCalc::<R>::calculate(a, b, true));
    let reply = if got.is_some() { "ok" } else { "panic" };
    let req = format!("calcshape {} {} {} {}", n1, m, k, n2);
    s.oracle((n1 == n2) == got.is_some(), "calculate rejects differentials whose shapes do not compose, accepts the others", &req, reply);
    s.case(&req, reply, n1 != n2);
    s.count("malformed.shape");
}

/// `Trans` composition (append / merge / forward / backward / forward_mat / backward_mat / reduce) against the Lean model.
/// Integers only; with probability 1/5 one dimension is made inconsistent (the asserts must reject it).
fn run_trans(s: &mut Sink, r: &mut Rng) {
    type R = i64;
    let k = 1 + r.below(4) as usize;
    let mut dims: Vec<usize> = (0..=k).map(|_| r.below(4) as usize).collect();
    if r.chance(1, 3) { dims[0] = 1 + r.below(3) as usize; }
    let rm = |r: &mut Rng, a: usize, b: usize| D::<R> { r: a, c: b, e: (0..a * b).map(|_| r.range(-3, 3)).collect() };
    let mut fs = vec![]; let mut bs = vec![];
    for i in 0..k { fs.push(rm(r, dims[i + 1], dims[i])); bs.push(rm(r, dims[i], dims[i + 1])); }
    let mut vdim = dims[0]; let mut wdim = dims[k];
    let bad = r.chance(1, 5);
    if bad {
        match r.below(4) {
            0 => { let i = r.below(k as u64) as usize; fs[i] = rm(r, dims[i + 1], dims[i] + 1); }
            1 => { let i = r.below(k as u64) as usize; bs[i] = rm(r, dims[i] + 1, dims[i + 1]); }
            2 => vdim += 1,
            _ => wdim += 1,
        }
    }
    let split = r.below(k as u64 + 1) as usize;
    let v: Vec<R> = (0..vdim).map(|_| r.range(-4, 4)).collect();
    let w: Vec<R> = (0..wdim).map(|_| r.range(-4, 4)).collect();
    let vec_line = |v: &[R]| format!("{} 1{}", v.len(), v.iter().map(|a| format!(" {a}")).collect::<String>());
    let mut req = format!("tr {} {} {}", dims[0], k, split);
    for i in 0..k { req.push(' '); req.push_str(&mat_line(&fs[i])); req.push(' '); req.push_str(&mat_line(&bs[i])); }
    req.push(' '); req.push_str(&vec_line(&v)); req.push(' '); req.push_str(&vec_line(&w));
    let (fs2, bs2, v2, w2, n0) = (fs.clone(), bs.clone(), v.clone(), w.clone(), dims[0]);
    let use_merged = r.bool();
    let got = guard(move || {
        // first `split` pairs appended to id(n0); the rest collected in a second Trans and merged
        let mut t = Trans::<R>::id(n0);
        for i in 0..split { t.append(fs2[i].sp(), bs2[i].sp()); }
        if split < fs2.len() {
            let mut u = Trans::<R>::new(fs2[split].sp(), bs2[split].sp());
            for i in split + 1..fs2.len() { u.append(fs2[i].sp(), bs2[i].sp()); }
            if use_merged { t = t.merged(&u); } else { t.merge(u); }
        }
        let fwd = t.forward(&spvec(&v2)).to_dense();
        let bwd = t.backward(&spvec(&w2)).to_dense();
        let (fm, bm) = (D::from_sp(&t.forward_mat()), D::from_sp(&t.backward_mat()));
        let mut t2 = t.clone();
        t2.reduce();
        let same = t2.forward(&spvec(&v2)).to_dense() == fwd && t2.backward(&spvec(&w2)).to_dense() == bwd
            && D::from_sp(&t2.forward_mat()) == fm && D::from_sp(&t2.backward_mat()) == bm
            && t2.src_dim() == t.src_dim() && t2.tgt_dim() == t.tgt_dim();
        format!("src={} tgt={} fwd={} bwd={} fm={} bm={} reduce-same={}", t.src_dim(), t.tgt_dim(), vec_show(&fwd), vec_show(&bwd), mat_line(&fm), mat_line(&bm), same)
    });
    let reply = got.unwrap_or_else(|| "panic".into());
    s.count(if bad { "trans.malformed" } else { "trans.valid" });
    s.case(&req, &reply, true);
}

fn ring_stream<R: HRing>(s: &mut Sink, r: &mut Rng, cases: usize, maxdim: usize, lvl: u32, ops_mul: usize)
where for<'x> &'x R: EucRingOps<R> {
    for i in 0..cases {
        let sh = rnd_shape(r, maxdim, lvl, ops_mul);
        let tag = format!("planted#{i}");
        guarded_case(s, &format!("ring={} {}", R::name(), tag), |s| run_planted::<R>(s, r, &sh, &tag));
        if i % 4 == 0 {
            let len = 3 + r.below(3) as usize;
            let tag = format!("long#{i}");
            guarded_case(s, &format!("ring={} {}", R::name(), tag), |s| run_long::<R>(s, r, len, maxdim.min(6), lvl, &tag));
        }
    }
}

fn main() {
    let args = Args::parse();
    quiet_panics();
    let mut rng = Rng::new(args.seed);
    let r = &mut rng;
    let mut sink = Sink::new(&args, "non-trivial = the middle chain group has positive dimension and not both differentials are zero");
    let s = &mut sink;
    let th = args.thorough();

    // hand-written boundary cases first
    corpus::<i64>(s, r); corpus::<i128>(s, r); corpus::<BigInt>(s, r); corpus::<Ratio<i64>>(s, r);
    corpus::<FF2>(s, r); corpus::<FF<3>>(s, r); corpus::<FF<5>>(s, r);
    corpus::<GaussInt<i64>>(s, r); corpus::<EisenInt<i64>>(s, r); corpus::<PQ>(s, r); corpus::<PF3>(s, r);

    // built-in complexes
    run_builtin::<i64>(s, r, false); run_builtin::<BigInt>(s, r, false); run_builtin::<FF2>(s, r, true);
    run_builtin::<FF<3>>(s, r, false); run_builtin::<Ratio<i64>>(s, r, false);
    if th {
        run_builtin::<i128>(s, r, false); run_builtin::<FF<5>>(s, r, false);
        run_builtin::<GaussInt<i64>>(s, r, false); run_builtin::<EisenInt<i64>>(s, r, false);
        run_builtin::<PQ>(s, r, false); run_builtin::<PF3>(s, r, false);
    }

    for _ in 0..(if th { 200 } else { 40 }) { malformed::<i64>(s, r); }

    if th {
        exhaustive::<i64>(s, r, &[-3, -2, -1, 0, 1, 2, 3, 4, 6]);
        exhaustive::<BigInt>(s, r, &[-2, -1, 0, 1, 2]);
        exhaustive::<FF2>(s, r, &[0, 1]); exhaustive::<FF<3>>(s, r, &[0, 1, 2]); exhaustive::<FF<5>>(s, r, &[0, 1, 2, 3, 4]);
        exhaustive::<GaussInt<i64>>(s, r, &[-2, -1, 0, 1, 2]); exhaustive::<EisenInt<i64>>(s, r, &[-2, -1, 0, 1, 2]);
        exhaustive::<Ratio<i64>>(s, r, &[-2, -1, 0, 1, 2]);
    } else {
        exhaustive::<i64>(s, r, &[-2, 0, 1, 2, 3]);
        exhaustive::<FF2>(s, r, &[0, 1]); exhaustive::<FF<3>>(s, r, &[0, 1, 2]);
    }

    for _ in 0..(if th { 20000 } else { 1500 }) { run_trans(s, r); }

    // planted complexes: (cases, maxdim, lvl, ops multiplier)
    let k = if th { 150 } else { 20 };
    ring_stream::<i64>(s, r, 60 * k, if th { 7 } else { 5 }, 2, 1);
    ring_stream::<i128>(s, r, 40 * k, if th { 9 } else { 6 }, 2, 2);
    ring_stream::<BigInt>(s, r, 50 * k, if th { 16 } else { 8 }, 3, 2);
    ring_stream::<BigInt>(s, r, 8 * k, if th { 8 } else { 4 }, if th { 19 } else { 7 }, 1);
    ring_stream::<Ratio<i64>>(s, r, 40 * k, 4, 1, 1);
    ring_stream::<FF2>(s, r, 50 * k, if th { 14 } else { 8 }, 1, 3);
    ring_stream::<FF<3>>(s, r, 50 * k, if th { 14 } else { 8 }, 1, 3);
    ring_stream::<FF<5>>(s, r, 50 * k, if th { 14 } else { 8 }, 1, 3);
    ring_stream::<GaussInt<i64>>(s, r, 40 * k, 4, 1, 1);
    ring_stream::<EisenInt<i64>>(s, r, 40 * k, 4, 1, 1);
    ring_stream::<PQ>(s, r, 30 * k, 3, 1, 1);
    ring_stream::<PF3>(s, r, 40 * k, if th { 5 } else { 4 }, 1, 1);
    if th {
        // larger shapes
        ring_stream::<BigInt>(s, r, 300, 24, 3, 2);
        ring_stream::<BigInt>(s, r, 100, 12, 19, 1);
        ring_stream::<FF2>(s, r, 300, 32, 1, 3);
        ring_stream::<FF<3>>(s, r, 300, 32, 1, 3);
        ring_stream::<FF<5>>(s, r, 300, 32, 1, 3);
        ring_stream::<i128>(s, r, 300, 12, 2, 1);
    }

    sink.finish();
}

#[allow(dead_code)]
fn _unused(_: Trans<i64>) {}
