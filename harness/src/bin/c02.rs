//! C02 — invariance of bigraded Khovanov homology under isotopy moves / relabelling, and mirror duality.
use std::collections::BTreeMap;
use num_bigint::BigInt;
use num_traits::Zero;
use yui::{EucRing, EucRingOps, Ratio, FF, FF2};
use yui_homology::{GridTrait, SummandTrait};
use yui_kh::kh::{KhComplexBigraded, KhHomologyBigraded};
use yui_link::Link;
use yv::links::*;
use yv::*;

type Tbl = BTreeMap<(isize, isize), (usize, Vec<BigInt>)>;

fn tbl<R>(l: &Link, red: bool, route1: bool, tor: &dyn Fn(&R) -> BigInt) -> Tbl
where R: EucRing, for<'x> &'x R: EucRingOps<R> {
    let kh = if route1 { KhHomologyBigraded::<R>::new(l, &R::zero(), &R::zero(), red) } else { KhComplexBigraded::<R>::new(l, &R::zero(), &R::zero(), red).homology() };
    let mut t = Tbl::new();
    for idx in kh.support() {
        let s = kh.get(idx);
        if s.rank() == 0 && s.tors().is_empty() { continue }
        let ts = chain_form(s.tors().iter().map(|x| tor(x)).collect());
        t.insert((idx.0, idx.1), (s.rank(), ts));
    }
    t
}
fn no_tor<R>(_: &R) -> BigInt { BigInt::zero() }

#[derive(Clone, Copy, Debug, PartialEq)]
enum Rg { Z, Q, F2, F3 }
impl Rg { fn tag(&self) -> &'static str { match self { Rg::Z => "Z", Rg::Q => "Q", Rg::F2 => "F2", Rg::F3 => "F3" } } }

fn table(l: &Link, rg: Rg, red: bool, route1: bool) -> Option<Tbl> {
    let l = l.clone();
    guard_timeout(120, move || match rg {
        Rg::Z => tbl::<i64>(&l, red, route1, &|x| BigInt::from(*x)),
        Rg::Q => tbl::<Ratio<i64>>(&l, red, route1, &no_tor),
        Rg::F2 => tbl::<FF2>(&l, red, route1, &no_tor),
        Rg::F3 => tbl::<FF<3>>(&l, red, route1, &no_tor),
    }).flatten()
}
fn txt(t: &Tbl) -> String { table_txt(t.iter().map(|(k, (r, ts))| ((k.0, Some(k.1)), group_txt(*r, ts.clone()))).collect()) }

fn mirror_rule(t: &Tbl) -> Tbl {
    let mut m = Tbl::new();
    for ((i, j), (r, ts)) in t {
        if *r > 0 { m.entry((-i, -j)).or_insert((0, vec![])).0 += r; }
        if !ts.is_empty() { m.entry((1 - i, -j)).or_insert((0, vec![])).1.extend(ts.iter().cloned()); }
    }
    for v in m.values_mut() { v.1 = chain_form(v.1.clone()); }
    m
}

struct Ctx<'a> { s: &'a mut Sink, ref_max: usize }

impl<'a> Ctx<'a> {
    /// the moved diagram must have the same table as the original, for every ring; the model sees the moved diagram
    fn compare(&mut self, what: &str, orig: &Link, moved: &Link, knot: bool, r: &mut Rng) {
        let desc = format!("{} --[{}]--> {}", link_txt(orig), what, link_txt(moved));
        for rg in [Rg::Z, Rg::Q, Rg::F2, Rg::F3] {
            for red in [false, true] {
                if red && !knot { continue }
                if rg != Rg::Z && !r.chance(1, 2) { continue }
                let route1 = r.bool();
                let (a, b) = (table(orig, rg, red, route1), table(moved, rg, red, route1));
                self.s.count(&format!("ring.{}", rg.tag()));
                match (a, b) {
                    (Some(a), Some(b)) => {
                        self.s.oracle(a == b, "isotopic / relabelled diagrams have isomorphic bigraded Khovanov homology", &format!("{} ring={} reduced={}", desc, rg.tag(), red as u8), &format!("{} vs {}", txt(&a), txt(&b)));
                        if moved.crossing_num() <= self.ref_max {
                            let req = format!("kh {} 0 0 {} 1 {}", rg.tag(), red as u8, link_txt(moved));
                            self.s.case(&req, &format!("signs={} {}", signs_txt(moved), txt(&b)), moved.crossing_num() >= 2);
                        } else { self.s.eval_only(&desc, true); }
                    }
                    _ => self.s.oracle(false, "the library computes Kh of a valid diagram without panic/hang", &desc, "panic/timeout"),
                }
            }
        }
    }
    fn mirror(&mut self, l: &Link, knot: bool) {
        let m = l.mirror();
        for rg in [Rg::Z, Rg::Q, Rg::F2] {
            for red in [false, true] {
                if red && !knot { continue }
                let (Some(a), Some(b)) = (table(l, rg, red, false), table(&m, rg, red, false)) else {
                    self.s.oracle(false, "the library computes Kh of a valid diagram without panic/hang", &link_txt(l), "panic/timeout"); continue };
                self.s.oracle(mirror_rule(&a) == b, "mirror: free part (i,j)->(-i,-j), torsion (i,j)->(1-i,-j)", &format!("{} ring={} reduced={}", link_txt(l), rg.tag(), red as u8), &format!("orig {} mirror {}", txt(&a), txt(&b)));
                if l.crossing_num() <= self.ref_max {
                    self.s.case(&format!("khm {} {} {}", rg.tag(), red as u8, link_txt(l)), &txt(&a), l.crossing_num() >= 2);
                }
            }
        }
        self.s.count("mirror");
    }
}

fn main() {
    let args = Args::parse();
    quiet_panics();
    let thorough = args.thorough();
    let mut s = Sink::new(&args, "cases: base diagrams (yui-link table, random braid closures, corner cases) x random sequences (length 1..6) of isotopy moves \
        (Reidemeister I kinks of both signs, braid relations = R3, cancelling pairs = R2, conjugation and stabilisation = Markov, edge renumbering, crossing \
        reordering, global orientation reversal) x rings Z/Q/F2/F3 x reduced/unreduced (knots) x both library routes; moved vs original table, mirror rule cell by cell, \
        and the Lean cube reference of the moved / mirrored diagram; non-trivial = diagram with >= 2 crossings; distinct = distinct request lines");
    let mut r = Rng::new(args.seed);
    let (base_max, moved_max, ref_max) = if thorough { (8, 11, 9) } else { (6, 8, 8) };
    let mut ctx = Ctx { s: &mut s, ref_max };

    let mut bases: Vec<(String, Link)> = vec![("unknot".into(), Link::unknot()), ("hopf".into(), Link::hopf_link()), ("trefoil".into(), Link::trefoil()), ("figure8".into(), Link::figure8())];
    let mut names = table_names(base_max);
    r.shuffle(&mut names);
    names.truncate(if thorough { 60 } else { 20 });
    for n in names { if let Some(l) = load(&n) { bases.push((n, l)); } }

    for (name, l) in &bases {
        let knot = l.is_knot();
        ctx.s.count(if knot { "base.knot" } else { "base.link" });
        ctx.mirror(l, knot);
        if !is_plain_pd(l) || l.is_empty() { continue }
        for _ in 0..(if thorough { 4 } else { 3 }) {
            let mut pd = pd_of(l);
            let mut tags = vec![];
            for _ in 0..(1 + r.below(5)) {
                match r.below(5) {
                    0 | 1 => { if pd.len() < moved_max { if let Some(q) = add_kink(&mut r, &pd) { pd = q; tags.push("R1-kink"); } } }
                    2 => { pd = renumber(&mut r, &pd); tags.push("renumber"); }
                    3 => { pd = reorder(&mut r, &pd); tags.push("reorder"); }
                    _ => { pd = reverse_all(&pd); tags.push("reverse-all"); }
                }
            }
            for t in &tags { ctx.s.count(&format!("move.{}", t)); }
            let moved = link_of(&pd);
            let _ = name;
            ctx.compare(&tags.join(","), l, &moved, knot, &mut r);
        }
    }
    // dense braids (full products (σ1…σ_{n-1})^k and perturbations): their simplification stacks cobordisms made of several
    // strips joined by tubes, which sparse random words and the small table knots never produce
    {
        let mut dense: Vec<(usize, Vec<i32>)> = vec![(3, [1, 2].repeat(3)), (3, [1, 2].repeat(4)), (4, [1, 2, 3].repeat(2)), (3, [-1, -2].repeat(4)), (3, vec![1, 2, 1, 2, 1, 2, 1, -2])];
        if thorough { dense.extend([(4, [1, 2, 3].repeat(3)), (3, [1, 2].repeat(5)), (4, vec![1, 2, 3, 1, 2, 3, -1, 2, 3])]); }
        for _ in 0..(if thorough { 12 } else { 3 }) {
            let n = 3 + r.below(2) as usize;
            let len = 6 + r.below(3) as usize;
            let w: Vec<i32> = (0..len).map(|k| { let g = 1 + (k % (n - 1)) as i32; if r.chance(1, 6) { -g } else { g } }).collect();
            dense.push((n, w));
        }
        for (n, w) in dense {
            let Some(l) = braid_closure(n, &w) else { continue };
            let knot = l.is_knot();
            ctx.s.count("base.dense-braid");
            let (mut st, mut ww) = (n, w.clone());
            let mut tags = vec![];
            for _ in 0..(1 + r.below(3)) {
                let (s2, w2, tag) = braid_move(&mut r, st, &ww);
                if w2.len() > moved_max.max(w.len() + 1) { break }
                st = s2; ww = w2; tags.push(tag);
            }
            let Some(m) = braid_closure(st, &ww) else { continue };
            if m.is_knot() != knot { continue }
            ctx.compare(&format!("dense braid {}:{:?} ~ {}:{:?} ({})", n, w, st, ww, tags.join(",")), &l, &m, knot, &mut r);
            ctx.mirror(&l, knot);
        }
    }
    // wide torus knots: T(4,5) as a 4-strand and as a 5-strand closure, and the two mirror diagrams, over Z through the homology-level
    // route, several builds each. These are the smallest diagrams whose integral homology has torsion of order 4 next to units in the
    // Smith diagonal, so the q-degree under which a torsion generator is filed depends on the exact generators the homology calculator
    // returns (and those depend on the hash order of the engine): same diagram twice, two diagrams of the knot, and the mirror rule.
    {
        let w4: Vec<i32> = [1, 2, 3].repeat(5);
        let w5: Vec<i32> = [1, 2, 3, 4].repeat(4);
        let neg = |w: &Vec<i32>| w.iter().map(|x| -x).collect::<Vec<i32>>();
        if let (Some(a), Some(b), Some(ma), Some(mb)) = (braid_closure(4, &w4), braid_closure(5, &w5), braid_closure(4, &neg(&w4)), braid_closure(5, &neg(&w5))) {
            for red in [false, true] {
                let mut first: Option<(Tbl, Tbl)> = None;
                for round in 0..(if thorough { 24 } else { 8 }) {
                    ctx.s.count("wide-torus.round");
                    let (ta, tb, tma, tmb) = (table(&a, Rg::Z, red, true), table(&b, Rg::Z, red, true), table(&ma, Rg::Z, red, true), table(&mb, Rg::Z, red, true));
                    let (Some(ta), Some(tb), Some(tma), Some(tmb)) = (ta, tb, tma, tmb) else {
                        ctx.s.oracle(false, "the library computes Kh of a valid diagram without panic/hang", "T(4,5) closures", "panic/timeout"); break };
                    let desc = format!("T(4,5): 4-strand {} / 5-strand {} reduced={} round={}", link_txt(&a), link_txt(&b), red as u8, round);
                    ctx.s.oracle(ta == tb, "isotopic / relabelled diagrams have isomorphic bigraded Khovanov homology", &desc, &format!("{} vs {}", txt(&ta), txt(&tb)));
                    ctx.s.oracle(tma == tmb, "isotopic / relabelled diagrams have isomorphic bigraded Khovanov homology", &format!("mirror of {}", desc), &format!("{} vs {}", txt(&tma), txt(&tmb)));
                    ctx.s.oracle(mirror_rule(&ta) == tma, "mirror: free part (i,j)->(-i,-j), torsion (i,j)->(1-i,-j)", &desc, &format!("orig {} mirror {}", txt(&ta), txt(&tma)));
                    ctx.s.oracle(mirror_rule(&tb) == tmb, "mirror: free part (i,j)->(-i,-j), torsion (i,j)->(1-i,-j)", &desc, &format!("orig {} mirror {}", txt(&tb), txt(&tmb)));
                    match &first {
                        None => first = Some((ta, tma)),
                        Some((fa, fma)) => ctx.s.oracle(*fa == ta && *fma == tma, "the same diagram evaluated twice gives the same table", &desc, &format!("{} / {} vs first {} / {}", txt(&ta), txt(&tma), txt(fa), txt(fma))),
                    }
                    ctx.s.eval_only(&desc, true);
                }
            }
        }
    }
    // conjugation and cancelling pairs carried out with the LIBRARY's braid algebra (Braid::new, inv, *=, closure): g·b·g⁻¹ and
    // g·g⁻¹·b close to diagrams of the same link as b ("Markov moves on a braid word before closure")
    for _ in 0..(if thorough { 40 } else { 10 }) {
        let strands = 3 + r.below(2) as usize;
        let len = strands - 1 + r.below(3) as usize;
        let (w, l) = random_braid(&mut r, strands, len);
        let Some(l) = l else { continue };
        let glen = 2 + r.below(2) as usize;
        let gw: Vec<i32> = (0..glen).map(|_| { let g = 1 + r.below(strands as u64 - 1) as i32; if r.bool() { g } else { -g } }).collect();
        if w.len() + 2 * gw.len() > moved_max { continue }
        let conj = r.bool();
        let (w2, gw2) = (w.clone(), gw.clone());
        let built = guard(move || {
            let b = yui_link::Braid::new(strands, w2.iter().map(|&x| x.into()).collect());
            let g = yui_link::Braid::new(strands, gw2.iter().map(|&x| x.into()).collect());
            let mut c = g.clone();
            if conj { c *= &b; c *= &g.inv(); } else { c *= &g.inv(); c *= &b; }
            c.closure()
        });
        let desc = format!("library braid algebra: {} {:?} with g = {:?} ({})", strands, w, gw, if conj { "g·b·g⁻¹" } else { "g·g⁻¹·b" });
        let Some(m) = built else { ctx.s.oracle(false, "Braid::new / inv / *= / closure do not panic on valid words", &desc, "panic"); continue };
        let knot = l.is_knot();
        if m.is_knot() != knot || m.components().len() != l.components().len() { ctx.s.oracle(false, "conjugation / a cancelling pair built with Braid::inv preserves the number of components", &desc, &format!("{} vs {}", m.components().len(), l.components().len())); continue }
        ctx.s.count("move.library-braid-algebra");
        ctx.compare(&desc, &l, &m, knot, &mut r);
    }
    // braid-level moves
    for _ in 0..(if thorough { 150 } else { 50 }) {
        let strands = 2 + r.below(3) as usize;
        let len = strands - 1 + r.below(4) as usize;
        let (w, l) = random_braid(&mut r, strands, len);
        let Some(l) = l else { continue };
        if l.crossing_num() > base_max { continue }
        let knot = l.is_knot();
        let (mut st, mut ww) = (strands, w.clone());
        let mut tags = vec![];
        for _ in 0..(1 + r.below(6)) {
            let (s2, w2, tag) = braid_move(&mut r, st, &ww);
            if w2.len() > moved_max { break }
            st = s2; ww = w2; tags.push(tag);
        }
        for t in &tags { ctx.s.count(&format!("move.{}", t)); }
        let Some(m) = braid_closure(st, &ww) else { continue };
        if m.is_knot() != knot { ctx.s.oracle(false, "braid moves preserve the number of components", &format!("{:?} -> {:?}", w, ww), ""); continue }
        ctx.compare(&format!("braid {}:{:?} ~ {}:{:?} ({})", strands, w, st, ww, tags.join(",")), &l, &m, knot, &mut r);
        if r.chance(1, 4) { ctx.mirror(&l, knot); }
    }
    s.finish();
}
