//! C18 — link diagrams: components, signs, resolutions, braid closures.
//!
//! Real code: `yui_link::{Link, Crossing, Braid}`.  Independent oracles written here (no traversal):
//!   * components      = classes of the union-find that identifies, at every crossing, the two labels of a strand
//!   * signs           = read off an orientation obtained by propagating "slot 0 in / slot 2 out" through
//!                       label partners and through the 1–3 strand of every crossing
//!   * circle counts   = classes of the edge-identification union-find of the resolved diagram
//!   * braid closure   = cycles of the braid permutation / letters / exponent sum
//! The Lean code model is run on the same request lines (`L`, `R`, `T`, `C`, `B`, `A`, see Drv/C18.lean).
use std::collections::{BTreeMap, BTreeSet};
use yui::bitseq::Bit;
use yui::Sign;
use yui_link::{Braid, Crossing, CrossingType, Link, Path, State};
use yv::*;

#[derive(Clone, Copy, PartialEq, Eq, Debug)]
enum CT { X, Xm, V, H }
type Xing = (CT, [usize; 4]);
type Diag = Vec<Xing>;

fn ct_str(t: CT) -> &'static str { match t { CT::X => "X", CT::Xm => "Xm", CT::V => "V", CT::H => "H" } }
fn ct_of(t: CrossingType) -> CT {
    match t { CrossingType::X => CT::X, CrossingType::Xm => CT::Xm, CrossingType::V => CT::V, CrossingType::H => CT::H }
}

fn ct_real(t: CT) -> CrossingType {
    match t { CT::X => CrossingType::X, CT::Xm => CrossingType::Xm, CT::V => CrossingType::V, CT::H => CrossingType::H }
}
fn diag_str(d: &Diag) -> String {
    if d.is_empty() { return "e".into() }
    d.iter().map(|(t, e)| format!("{}:{},{},{},{}", ct_str(*t), e[0], e[1], e[2], e[3])).collect::<Vec<_>>().join(";")
}
fn from_pd(pd: &[[usize; 4]]) -> Diag { pd.iter().map(|e| (CT::X, *e)).collect() }

/// builds the real `Link`: through `from_pd_code` when all crossings are `X`, else through `Link::new`
fn real_link(d: &Diag) -> Link {
    if d.iter().all(|x| x.0 == CT::X) {
        Link::from_pd_code(d.iter().map(|x| x.1))
    } else {
        Link::new(d.iter().map(|(t, e)| Crossing::new(ct_real(*t), *e)).collect())
    }
}

// ---------- independent oracles ----------

struct UF { p: BTreeMap<usize, usize> }
impl UF {
    fn new() -> UF { UF { p: BTreeMap::new() } }
    fn find(&mut self, a: usize) -> usize {
        let pa = *self.p.entry(a).or_insert(a);
        if pa == a { a } else { let r = self.find(pa); self.p.insert(a, r); r }
    }
    fn union(&mut self, a: usize, b: usize) { let (ra, rb) = (self.find(a), self.find(b)); if ra != rb { self.p.insert(ra, rb); } }
    fn classes(&mut self) -> BTreeSet<BTreeSet<usize>> {
        let keys: Vec<usize> = self.p.keys().cloned().collect();
        let mut m: BTreeMap<usize, BTreeSet<usize>> = BTreeMap::new();
        for k in keys { let r = self.find(k); m.entry(r).or_default().insert(k); }
        m.into_values().collect()
    }
}

/// pairs of slots joined inside a crossing of the given type
fn strands(t: CT) -> [(usize, usize); 2] {
    match t { CT::X | CT::Xm => [(0, 2), (1, 3)], CT::V => [(0, 3), (1, 2)], CT::H => [(0, 1), (2, 3)] }
}
fn uf_classes(d: &Diag) -> BTreeSet<BTreeSet<usize>> {
    let mut u = UF::new();
    for (t, e) in d { for (a, b) in strands(*t) { u.union(e[a], e[b]); } }
    u.classes()
}
fn resolve_ct(t: CT, bit: bool) -> CT {
    match (t, bit) { (CT::X, false) | (CT::Xm, true) => CT::H, (CT::X, true) | (CT::Xm, false) => CT::V, _ => unreachable!() }
}
fn label_counts(d: &Diag) -> BTreeMap<usize, usize> {
    let mut m = BTreeMap::new();
    for (_, e) in d { for &a in e { *m.entry(a).or_insert(0) += 1; } }
    m
}
fn is_valid(d: &Diag) -> bool { label_counts(d).values().all(|&c| c == 2) }
fn max_label(d: &Diag) -> usize { d.iter().flat_map(|x| x.1.iter().cloned()).max().unwrap_or(0) }

/// Orientation bookkeeping: `dir[4i+j] = Some(true)` iff the strand runs INTO crossing `i` at slot `j`.
struct Orient { dir: Vec<Option<bool>>, partner: Vec<usize>, consistent: bool }
impl Orient {
    fn new(d: &Diag) -> Orient {
        let n = d.len();
        let mut first: BTreeMap<usize, usize> = BTreeMap::new();
        let mut partner = vec![usize::MAX; 4 * n];
        for (i, (_, e)) in d.iter().enumerate() {
            for j in 0..4 {
                let s = 4 * i + j;
                if let Some(&s0) = first.get(&e[j]) { partner[s] = s0; partner[s0] = s; } else { first.insert(e[j], s); }
            }
        }
        let mut o = Orient { dir: vec![None; 4 * n], partner, consistent: true };
        for i in 0..n { o.set(4 * i, true); o.set(4 * i + 2, false); }
        o
    }
    fn set(&mut self, s: usize, v: bool) {
        let mut work = vec![(s, v)];
        while let Some((s, v)) = work.pop() {
            match self.dir[s] {
                Some(w) => { if w != v { self.consistent = false; } }
                None => {
                    self.dir[s] = Some(v);
                    if self.partner[s] != usize::MAX { work.push((self.partner[s], !v)); } // other end of the same edge
                    work.push((s ^ 2, !v));            // other end of the same strand inside the crossing
                }
            }
        }
    }
    /// complete the orientation of free components arbitrarily
    fn complete(&mut self) { for s in 0..self.dir.len() { if self.dir[s].is_none() { self.set(s, true); } } }
    fn sign(&self, d: &Diag, i: usize) -> Option<bool> {
        let in3 = self.dir[4 * i + 3]?;
        Some(match d[i].0 { CT::X => in3, CT::Xm => !in3, _ => unreachable!() })
    }
}

// ---------- canonical text (mirrors Drv/C18.lean) ----------

fn canon_circle(es: &[usize]) -> Vec<usize> {
    if es.len() <= 1 { return es.to_vec() }
    let m = *es.iter().min().unwrap();
    let k = es.iter().position(|&x| x == m).unwrap();
    let mut r: Vec<usize> = es[k..].to_vec(); r.extend_from_slice(&es[..k]);
    let mut r2 = vec![m]; r2.extend(r[1..].iter().rev().cloned());
    if r2 < r { r2 } else { r }
}
fn canon_arc(es: &[usize]) -> Vec<usize> {
    let r: Vec<usize> = es.iter().rev().cloned().collect();
    if r < es.to_vec() { r } else { es.to_vec() }
}
fn canon_path(p: &Path) -> (bool, Vec<usize>) {
    if p.is_circle() { (true, canon_circle(p.edges())) } else { (false, canon_arc(p.edges())) }
}
fn canon_paths(ps: &[Path]) -> Vec<(bool, Vec<usize>)> { let mut v: Vec<_> = ps.iter().map(canon_path).collect(); v.sort(); v }
fn comps_str(ps: &[Path]) -> String {
    if ps.is_empty() { return "-".into() }
    canon_paths(ps).iter().map(|(c, es)| format!("{}:{}", if *c { "c" } else { "a" },
        es.iter().map(|e| e.to_string()).collect::<Vec<_>>().join("-"))).collect::<Vec<_>>().join(",")
}
fn signs_str(s: &[bool]) -> String { if s.is_empty() { "-".into() } else { s.iter().map(|&p| if p { '+' } else { '-' }).collect() } }
fn edge_sets(ps: &[Path]) -> BTreeSet<BTreeSet<usize>> { ps.iter().map(|p| p.edges().iter().cloned().collect()).collect() }

/// components never running along a 0–2 strand, in canonical order
fn free_comps(d: &Diag, comps: &[Path]) -> Vec<(bool, Vec<usize>)> {
    canon_paths(comps).into_iter().filter(|(_, es)|
        d.iter().all(|(t, e)| matches!(t, CT::V | CT::H) || (!es.contains(&e[0]) && !es.contains(&e[2])))).collect()
}
fn normalise_signs(d: &Diag, free: &[(bool, Vec<usize>)], signs: &[bool]) -> Vec<bool> {
    let mut s = signs.to_vec();
    for (_, es) in free {
        let on: Vec<bool> = d.iter().map(|(_, e)| es.contains(&e[1])).collect();
        if let Some(i0) = (0..s.len().min(on.len())).find(|&i| on[i]) {
            if !s[i0] { for i in 0..s.len().min(on.len()) { if on[i] { s[i] = !s[i]; } } }
        }
    }
    s
}

// ---------- the `L` case: components, signs, writhe, seifert circles ----------

struct LOut { comps: Vec<Path>, signs: Vec<bool>, writhe: i32, pn: (usize, usize), knot: bool, seifert: Vec<Path> }

fn run_l(d: &Diag) -> Option<LOut> {
    let l = real_link(d);
    guard(|| {
        let comps = l.components();
        let signs: Vec<bool> = l.crossing_signs().into_iter().map(|s| s == Sign::Pos).collect();
        LOut { comps, signs, writhe: l.writhe(), pn: l.signed_crossing_nums(), knot: l.is_knot(), seifert: l.seifert_circles() }
    })
}

fn l_reply(d: &Diag, o: &LOut) -> (String, usize) {
    let free = free_comps(d, &o.comps);
    let nfree = free.len();
    let tail = if nfree == 0 {
        format!("{}|{}|{},{}|{}|{}", signs_str(&o.signs), o.writhe, o.pn.0, o.pn.1, if o.knot { 1 } else { 0 }, comps_str(&o.seifert))
    } else {
        format!("{}|*|*|{}|*", signs_str(&normalise_signs(d, &free, &o.signs)), if o.knot { 1 } else { 0 })
    };
    (format!("{}|{}|{}|ck=1", comps_str(&o.comps), nfree, tail), nfree)
}

/// property oracle + model line for a valid, consistently oriented diagram without resolved crossings
fn case_l(s: &mut Sink, d: &Diag, kind: &str) -> Option<LOut> {
    let txt = diag_str(d);
    let req = format!("L {}", txt);
    s.count(&format!("L.kind.{}", kind));
    s.count(&format!("L.n.{:02}", d.len()));
    let Some(o) = run_l(d) else {
        s.oracle(false, "components / crossing_signs / seifert_circles return on a valid PD code (no panic)", &txt, "panic");
        s.case(&req, "panic", true);
        return None
    };
    let n = d.len();
    // components
    let classes = uf_classes(d);
    let all_labels: BTreeSet<usize> = d.iter().flat_map(|x| x.1.iter().cloned()).collect();
    let listed: Vec<usize> = o.comps.iter().flat_map(|p| p.edges().iter().cloned()).collect();
    let partition = listed.len() == all_labels.len() && listed.iter().cloned().collect::<BTreeSet<_>>() == all_labels;
    s.oracle(partition, "components partition the edge set (every label in exactly one component, listed once)", &txt, &comps_str(&o.comps));
    s.oracle(edge_sets(&o.comps) == classes && o.comps.iter().all(|p| p.is_circle()),
        "components are the orbits of the strand-through-crossing relation (closed paths)", &txt, &comps_str(&o.comps));
    s.oracle(o.knot == (classes.len() == 1), "is_knot iff exactly one component", &txt, &format!("{}", o.knot));
    s.count(&format!("L.comps.{}", classes.len().min(6)));
    // signs
    let mut ori = Orient::new(d);
    if !ori.consistent { s.count("L.inconsistent-orientation(skipped sign oracle)"); }
    else {
        let ok_len = o.signs.len() == n;
        let mut ok = ok_len;
        if ok_len {
            for i in 0..n {
                if ori.dir[4 * i + 3].is_none() {
                    // free component: the code may choose its direction; adopt its choice at the first crossing met
                    let in3 = match d[i].0 { CT::X => o.signs[i], _ => !o.signs[i] };
                    ori.set(4 * i + 3, in3);
                }
                if ori.sign(d, i) != Some(o.signs[i]) { ok = false; }
            }
        }
        s.oracle(ok && ori.consistent, "crossing signs are those of an orientation consistent with the under-strand (0→2) directions",
            &txt, &signs_str(&o.signs));
        let p = o.signs.iter().filter(|&&x| x).count();
        let m = o.signs.len() - p;
        s.oracle(o.pn == (p, m) && o.writhe == p as i32 - m as i32, "signed_crossing_nums / writhe count the crossing signs", &txt,
            &format!("{:?} {}", o.pn, o.writhe));
        // seifert circles: join in→out across strands, with the orientation just validated
        if ok && ori.consistent {
            let mut u = UF::new();
            for (i, (_, e)) in d.iter().enumerate() {
                let in3 = ori.dir[4 * i + 3].unwrap();
                let (ein, eout) = if in3 { (e[3], e[1]) } else { (e[1], e[3]) };
                u.union(e[0], eout); u.union(ein, e[2]);
            }
            s.oracle(edge_sets(&o.seifert) == u.classes() && o.seifert.iter().all(|p| p.is_circle()),
                "seifert_circles are the circles of the orientation-preserving smoothing", &txt, &comps_str(&o.seifert));
        }
    }
    let (reply, nfree) = l_reply(d, &o);
    if nfree > 0 { s.count("L.with-free-component"); }
    s.case(&req, &reply, n > 0);
    Some(o)
}

// ---------- the `R` case: every resolution state ----------

fn case_r(s: &mut Sink, d: &Diag) {
    let txt = diag_str(d);
    let n = d.iter().filter(|x| matches!(x.0, CT::X | CT::Xm)).count();
    let l = real_link(d);
    let mut toks = Vec::with_capacity(1 << n);
    let mut bad = vec![];
    let mut hash: u64 = 0;
    let hstep = |h: u64, x: u64| (h * 31 + x + 1) % 1_000_000_007;
    let unresolved: Vec<usize> = (0..d.len()).filter(|&i| matches!(d[i].0, CT::X | CT::Xm)).collect();
    for k in 0..(1usize << n) {
        let st = State::from_iter((0..n).map(|i| Bit::from((k >> i) & 1 == 1)));
        let r = guard(|| { let r = l.resolved_by(&st); (r.crossing_num(), r.components()) });
        let mut rd = d.clone();
        for (pos, &i) in unresolved.iter().enumerate() { rd[i].0 = resolve_ct(rd[i].0, (k >> pos) & 1 == 1); }
        let want = uf_classes(&rd);
        match r {
            Some((cn, comps)) => {
                let all_circ = comps.iter().all(|p| p.is_circle());
                if !(cn == 0 && all_circ && edge_sets(&comps) == want && comps.len() == want.len()) {
                    bad.push(format!("state {} -> {} (expected {} circles)", k, comps_str(&comps), want.len()));
                }
                if all_circ {
                    let mut mins: Vec<u64> = comps.iter().map(|p| p.min_edge() as u64).collect();
                    mins.sort();
                    hash = hstep(hash, 0);
                    for m in mins { hash = hstep(hash, m); }
                }
                toks.push(if all_circ { comps.len().to_string() } else { "!".into() });
            }
            None => { bad.push(format!("state {} -> panic", k)); toks.push("!".into()); }
        }
    }
    s.oracle(bad.is_empty(), "every resolution state gives a crossingless diagram of circles whose number is the edge-identification count",
        &txt, &bad.join("; "));
    s.count(&format!("R.n.{:02}", n));
    s.count_n("R.states", 1 << n);
    s.case(&format!("R {}", txt), &format!("{}|h={}|ck=1", toks.join(","), hash), n > 0);
}

/// the same states reached ONE CROSSING AT A TIME through `resolved_at(i, bit)` in a random order (the index `i` counts the
/// crossings that are still unresolved): the result must be the diagram `resolved_by` gives, with the same circles
fn case_stepwise(s: &mut Sink, r: &mut Rng, d: &Diag) {
    let txt = diag_str(d);
    let unresolved: Vec<usize> = (0..d.len()).filter(|&i| matches!(d[i].0, CT::X | CT::Xm)).collect();
    let n = unresolved.len();
    if n < 2 { return }
    let l = real_link(d);
    for _ in 0..4 {
        let k = r.below(1u64 << n) as usize;
        let mut order: Vec<usize> = (0..n).collect();      // positions among the originally unresolved crossings
        r.shuffle(&mut order);
        let mut remaining: Vec<usize> = (0..n).collect();
        let mut cur = l.clone();
        let mut ok = true;
        let mut steps = vec![];
        // sometimes only the first few crossings are resolved one at a time and the REST is applied at once with `resolved_by`
        // (its bits refer to the still unresolved crossings, in order)
        let at_once_after = if r.chance(1, 2) { Some(r.below(n as u64) as usize) } else { None };
        for (step, &pos) in order.iter().enumerate() {
            if Some(step) == at_once_after {
                let bits: Vec<Bit> = remaining.iter().map(|&p| Bit::from((k >> p) & 1 == 1)).collect();
                steps.push(format!("resolved_by({})", bits.iter().map(|b| if b.is_one() { '1' } else { '0' }).collect::<String>()));
                let c2 = cur.clone();
                match guard(move || c2.resolved_by(&yui::bitseq::BitSeq::from_iter(bits))) { Some(x) => cur = x, None => ok = false }
                s.count("S.stepwise.then-resolved_by");
                break;
            }
            let i = remaining.iter().position(|&p| p == pos).unwrap();   // index among the still unresolved ones
            let bit = (k >> pos) & 1 == 1;
            steps.push(format!("resolved_at({},{})", i, bit as u8));
            let c2 = cur.clone();
            match guard(move || c2.resolved_at(i, Bit::from(bit))) { Some(x) => cur = x, None => { ok = false; break } }
            remaining.remove(i);
        }
        let mut rd = d.clone();
        for (pos, &i) in unresolved.iter().enumerate() { rd[i].0 = resolve_ct(rd[i].0, (k >> pos) & 1 == 1); }
        let want = uf_classes(&rd);
        let detail;
        if ok {
            let types_ok = cur.data().iter().zip(rd.iter()).all(|(c, w)| ct_of(c.ctype()) == w.0);
            let cur2 = cur.clone();
            let comps = guard(move || cur2.components());
            let circles_ok = matches!(&comps, Some(cs) if cs.iter().all(|p| p.is_circle()) && edge_sets(cs) == want);
            ok = types_ok && cur.crossing_num() == 0 && circles_ok;
            detail = format!("types_ok={} circles={:?} expected {}", types_ok, comps.as_ref().map(|c| c.len()), want.len());
        } else { detail = "panic".to_string(); }
        s.oracle(ok, "resolving the crossings one at a time (resolved_at, any order) reaches the same resolution state with the same circles",
            &format!("{} state={} via {}", txt, k, steps.join(".")), &detail);
        s.eval_only(&format!("stepwise {} state={} order={:?}", txt, k, order), true);
        s.count("S.stepwise");
    }
}

/// partially resolved diagram: components only
fn case_c(s: &mut Sink, d: &Diag) {
    let txt = diag_str(d);
    let l = real_link(d);
    let r = guard(|| l.components());
    match r {
        Some(comps) => {
            s.oracle(edge_sets(&comps) == uf_classes(d) && comps.iter().all(|p| p.is_circle()),
                "components of a partially resolved diagram are the orbits of the strand-through-crossing relation", &txt, &comps_str(&comps));
            s.case(&format!("C {}", txt), &format!("{}|ck=1", comps_str(&comps)), true);
        }
        None => {
            s.oracle(false, "components returns on a valid partially resolved diagram", &txt, "panic");
            s.case(&format!("C {}", txt), "panic", true);
        }
    }
    s.count("C.partial");
}

fn case_t(s: &mut Sink, d: &Diag, i: usize, j: usize) {
    let l = real_link(d);
    let r = guard(|| { let mut v = vec![]; l.traverse_edges((i, j), |a, b| v.push((a, b))); v });
    let reply = match &r { Some(v) => v.iter().map(|(a, b)| format!("{}.{}", a, b)).collect::<Vec<_>>().join(","), None => "panic".into() };
    if let Some(v) = &r {
        // a closed walk: starts and ends at the start slot, at most 4n+1 callbacks, no slot repeated in between
        let inner: BTreeSet<_> = v[..v.len() - 1].iter().cloned().collect();
        s.oracle(v.first() == Some(&(i, j)) && v.last() == Some(&(i, j)) && inner.len() == v.len() - 1 && v.len() <= 4 * d.len() + 1,
            "a walk on a valid PD code returns to its start without repeating a slot", &diag_str(d), &reply);
    } else {
        s.oracle(false, "traverse_edges returns on a valid PD code", &diag_str(d), "panic");
    }
    s.count("T.walk");
    s.case(&format!("T {} {} {}", diag_str(d), i, j), &reply, true);
}

// ---------- variants ----------

fn renumber(r: &mut Rng, d: &Diag) -> (Diag, BTreeMap<usize, usize>) {
    let labels: Vec<usize> = label_counts(d).keys().cloned().collect();
    let span = labels.len() * 3 + 2;
    let mut pool: Vec<usize> = (0..span).collect();
    r.shuffle(&mut pool);
    let m: BTreeMap<usize, usize> = labels.iter().cloned().zip(pool.into_iter()).collect();
    (d.iter().map(|(t, e)| (*t, [m[&e[0]], m[&e[1]], m[&e[2]], m[&e[3]]])).collect(), m)
}
fn mirror_d(d: &Diag) -> Diag {
    d.iter().map(|(t, e)| (match t { CT::X => CT::Xm, CT::Xm => CT::X, o => *o }, *e)).collect()
}
fn reverse_d(d: &Diag) -> Diag { d.iter().map(|(t, e)| (*t, [e[2], e[3], e[0], e[1]])).collect() }

/// signs with the freedom on free components removed (for metamorphic comparisons)
fn norm_signs_of(d: &Diag, o: &LOut) -> Vec<bool> { normalise_signs(d, &free_comps(d, &o.comps), &o.signs) }

fn variants(s: &mut Sink, r: &mut Rng, d: &Diag, base: &LOut, kind: &str) {
    let txt = diag_str(d);
    let bs = norm_signs_of(d, base);
    let has_free = !free_comps(d, &base.comps).is_empty();
    // renumbering
    let (d1, map) = renumber(r, d);
    if let Some(o1) = case_l(s, &d1, &format!("{}+renumber", kind)) {
        let img: BTreeSet<BTreeSet<usize>> = edge_sets(&base.comps).iter().map(|c| c.iter().map(|e| map[e]).collect()).collect();
        s.oracle(edge_sets(&o1.comps) == img, "components commute with edge renumbering", &txt, &diag_str(&d1));
        // the normal form on free components depends on label order only through the canonical order of the
        // free components, which does not matter: each crossing lies on at most one free component
        s.oracle(norm_signs_of(&d1, &o1) == bs && (has_free || (o1.writhe == base.writhe && o1.pn == base.pn)),
            "signs, writhe and signed crossing numbers are invariant under renumbering", &txt, &diag_str(&d1));
    }
    // crossing reordering
    let mut perm: Vec<usize> = (0..d.len()).collect();
    r.shuffle(&mut perm);
    let d2: Diag = perm.iter().map(|&i| d[i]).collect();
    if let Some(o2) = case_l(s, &d2, &format!("{}+reorder", kind)) {
        s.oracle(edge_sets(&o2.comps) == edge_sets(&base.comps), "components are invariant under crossing reordering", &txt, &diag_str(&d2));
        if !has_free {
            let want: Vec<bool> = perm.iter().map(|&i| base.signs[i]).collect();
            s.oracle(o2.signs == want && o2.writhe == base.writhe && o2.pn == base.pn,
                "signs (permuted), writhe and signed crossing numbers are invariant under crossing reordering", &txt, &diag_str(&d2));
        }
    }
    // mirror: through Link::mirror of the real link
    let l = real_link(d);
    let dm = mirror_d(d);
    let lm = guard(|| {
        let m = l.mirror();
        let same = m.data().iter().zip(dm.iter()).all(|(c, (t, e))| c.ctype() == ct_real(*t) && c.edges() == e) && m.data().len() == dm.len();
        (same, m.crossing_signs().into_iter().map(|x| x == Sign::Pos).collect::<Vec<bool>>(), m.writhe(), m.signed_crossing_nums(), m.components())
    });
    match lm {
        Some((same, ms, mw, mpn, mcomps)) => {
            s.oracle(same, "mirror keeps the edges and swaps X/Xm", &txt, "");
            if let Some(mtxt) = guard(|| { let m = l.mirror(); m.data().iter().map(|c| format!("{}:{},{},{},{}", c.ctype(), c.edge(0), c.edge(1), c.edge(2), c.edge(3))).collect::<Vec<_>>().join(";") }) {
                s.case(&format!("MR {}", txt), &mtxt, true);
                s.count("MR.mirror");
            }
            s.oracle(edge_sets(&mcomps) == edge_sets(&base.comps), "mirror keeps the components", &txt, "");
            let mo = LOut { comps: mcomps, signs: ms, writhe: mw, pn: mpn, knot: base.knot, seifert: vec![] };
            let nm = norm_signs_of(&dm, &mo);
            // on free components the normal form makes the first sign '+' on both sides; elsewhere signs negate
            let free = free_comps(d, &base.comps);
            let on_free: Vec<bool> = d.iter().map(|(_, e)| free.iter().any(|(_, es)| es.contains(&e[1]))).collect();
            let ok = nm.len() == bs.len() && (0..bs.len()).all(|i| if on_free[i] { nm[i] == bs[i] } else { nm[i] != bs[i] });
            s.oracle(ok && (has_free || (mo.writhe == -base.writhe && mo.pn == (base.pn.1, base.pn.0))),
                "signs, writhe and signed crossing numbers negate under mirroring", &txt, &signs_str(&mo.signs));
        }
        None => s.oracle(false, "mirror().crossing_signs() returns on a valid PD code", &txt, "panic"),
    }
    case_l(s, &dm, &format!("{}+mirror", kind));
    // reversal of every component (rotate every crossing by two slots): signs unchanged
    if r.chance(1, 2) {
        let d3 = reverse_d(d);
        if let Some(o3) = case_l(s, &d3, &format!("{}+reverse", kind)) {
            s.oracle(norm_signs_of(&d3, &o3) == bs, "signs are invariant under reversing every component", &txt, &diag_str(&d3));
        }
    }
}

// ---------- generators of valid diagrams ----------

fn table_names() -> Vec<String> {
    let mut v: Vec<String> = std::fs::read_dir("/repo/yui-link/resources/links").map(|rd|
        rd.filter_map(|e| e.ok()).filter_map(|e| e.file_name().to_str().map(|s| s.to_string()))
          .filter(|s| s.ends_with(".json")).map(|s| s.trim_end_matches(".json").to_string()).collect()).unwrap_or_default();
    v.sort();
    v
}
fn load_table(name: &str) -> Option<Diag> {
    // by path: `Link::load` by bare name rejects names such as `L10a10` (its name pattern has no digit 0)
    let l = Link::load(&format!("/repo/yui-link/resources/links/{}.json", name)).ok()?;
    Some(l.data().iter().map(|c| (CT::X, *c.edges())).collect())
}

fn rand_word(r: &mut Rng, strands: usize, extra: usize) -> Vec<i32> {
    let mut w: Vec<i32> = (1..strands as i32).map(|i| if r.bool() { i } else { -i }).collect();
    for _ in 0..extra {
        let i = 1 + r.below(strands as u64 - 1) as i32;
        w.push(if r.bool() { i } else { -i });
    }
    r.shuffle(&mut w);
    w
}

/// split the edge `e` at its head: the head slot gets a fresh label; returns (tail label, head label)
fn split_edge(d: &mut Diag, e: usize, fresh: usize) -> (usize, usize) {
    let mut o = Orient::new(d);
    o.complete();
    for i in 0..d.len() { for j in 0..4 {
        if d[i].1[j] == e && o.dir[4 * i + j] == Some(true) { d[i].1[j] = fresh; return (e, fresh) }
    } }
    unreachable!()
}
fn rand_label(r: &mut Rng, d: &Diag) -> usize { let ls: Vec<usize> = label_counts(d).keys().cloned().collect(); *r.pick(&ls) }

fn add_kink(r: &mut Rng, d: &mut Diag) {
    let e = rand_label(r, d);
    let fresh = max_label(d) + 1;
    let (a, b) = split_edge(d, e, fresh);
    let k = fresh + 1;
    let x = match r.below(4) { 0 => [a, k, k, b], 1 => [a, b, k, k], 2 => [k, a, b, k], _ => [k, k, b, a] };
    let pos = r.below(d.len() as u64 + 1) as usize;
    d.insert(pos, (if r.chance(1, 4) { CT::Xm } else { CT::X }, x));
}

/// a new circle that passes over `m` (not necessarily distinct) edges: a component that is never an under-strand
fn add_over_circle(r: &mut Rng, d: &mut Diag, m: usize) {
    let fresh0 = max_label(d) + 1;   // fresh labels of the m splits: fresh0 .. fresh0+m-1
    let base = fresh0 + m;           // labels of the circle: base .. base+m-1
    let c = |t: usize| base + (t % m);
    for t in 0..m {
        let e = rand_label(r, d);
        // do not split the circle's own edges (it must stay over-only)
        let e = if e >= base && e < base + m { d[0].1[0] } else { e };
        let (a, b) = split_edge(d, e, fresh0 + t);
        let x = if r.bool() { [a, c(t), b, c(t + 1)] } else { [a, c(t + 1), b, c(t)] };
        let pos = r.below(d.len() as u64 + 1) as usize;
        d.insert(pos, (CT::X, x));
    }
}

fn split_union(a: &Diag, b: &Diag) -> Diag {
    let off = max_label(a) + 1;
    let mut d = a.clone();
    d.extend(b.iter().map(|(t, e)| (*t, [e[0] + off, e[1] + off, e[2] + off, e[3] + off])));
    d
}

fn small_base(r: &mut Rng, names: &[String], max_n: usize) -> (Diag, &'static str) {
    loop {
        match r.below(5) {
            0 | 1 => {
                if names.is_empty() { continue }
                let nm: &String = r.pick(names); if let Some(d) = load_table(nm.as_str()) { if d.len() <= max_n { return (d, "table") } }
            }
            2 | 3 => {
                let strands = 2 + r.below(7) as usize;
                if strands - 1 > max_n { continue }
                let extra = r.below((max_n - (strands - 1)) as u64 + 1) as usize;
                let w = rand_word(r, strands, extra.min(8));
                let b = Braid::new(strands, w.iter().map(|&x| x.into()).collect());
                if let Some(l) = guard(|| b.closure()) { return (l.data().iter().map(|c| (CT::X, *c.edges())).collect(), "braid") }
            }
            _ => {
                let k = *r.pick(&[[0usize, 0, 1, 1], [0, 1, 1, 0], [1, 0, 0, 1], [1, 1, 0, 0]]);
                return (from_pd(&[k]), "kink1")
            }
        }
    }
}

fn gen_diag(r: &mut Rng, names: &[String], max_n: usize) -> (Diag, String) {
    let (mut d, kind) = small_base(r, names, max_n);
    let mut kind = kind.to_string();
    match r.below(10) {
        0 | 1 => { let k = 1 + r.below(3) as usize; for _ in 0..k { if d.len() < max_n { add_kink(r, &mut d); } } kind += "+kink"; }
        2 | 3 => { let m = 1 + r.below(3) as usize; if d.len() + m <= max_n { add_over_circle(r, &mut d, m); kind += "+overcircle"; } }
        4 => { let (b, _) = small_base(r, names, max_n.saturating_sub(d.len()).max(1)); if d.len() + b.len() <= max_n { d = split_union(&d, &b); kind += "+split"; } }
        5 => { // crossing changes
            for x in d.iter_mut() { if r.chance(1, 3) { x.0 = CT::Xm; } }
            kind += "+xchange";
        }
        6 => { // kink + over circle + split
            if d.len() + 4 <= max_n { add_kink(r, &mut d); add_over_circle(r, &mut d, 2); d = split_union(&d, &from_pd(&[[0, 0, 1, 1]])); kind += "+mix"; }
        }
        _ => {}
    }
    (d, kind)
}

// ---------- braid closure ----------

fn relabel_str(pd: &[[usize; 4]]) -> String {
    if pd.is_empty() { return "e".into() }
    let mut seen: Vec<usize> = vec![];
    for x in pd { for &a in x { if !seen.contains(&a) { seen.push(a); } } }
    pd.iter().map(|x| x.iter().map(|a| seen.iter().position(|b| b == a).unwrap().to_string()).collect::<Vec<_>>().join(","))
        .collect::<Vec<_>>().join(";")
}

fn case_b(s: &mut Sink, strands: usize, w: &[i32], in_quantifier: bool) {
    let wtxt = if w.is_empty() { "e".to_string() } else { w.iter().map(|x| x.to_string()).collect::<Vec<_>>().join(",") };
    let req = format!("B {} {}", strands, wtxt);
    let w2 = w.to_vec();
    let l = guard(move || Braid::new(strands, w2.iter().map(|&x| x.into()).collect()).closure());
    s.count(&format!("B.strands.{}", strands));
    s.count(&format!("B.len.{:02}", w.len().min(30)));
    match l {
        None => {
            s.count("B.panic");
            if in_quantifier {
                s.oracle(false, "closure of a braid word that uses every strand returns", &req, "panic");
                s.case(&req, "panic", false);
            } else {
                // outside the property's quantifier (unused strand / letter out of range): only required to terminate
                s.eval_only(&format!("{} (outside quantifier) => panic", req), false);
            }
        }
        Some(l) => {
            let pd: Vec<[usize; 4]> = l.data().iter().map(|c| *c.edges()).collect();
            if in_quantifier {
                let d = from_pd(&pd);
                s.oracle(is_valid(&d), "the closure is a valid PD code (every label exactly twice)", &req, &diag_str(&d));
                s.oracle(l.crossing_num() == w.len() && pd.len() == w.len(), "as many crossings as letters", &req, &diag_str(&d));
                // cycles of the braid permutation
                let mut perm: Vec<usize> = (0..strands).collect();
                for &x in w { let i = x.unsigned_abs() as usize - 1; perm.swap(i, i + 1); }
                let mut seen = vec![false; strands];
                let mut cycles = 0;
                for i in 0..strands { if !seen[i] { cycles += 1; let mut j = i; while !seen[j] { seen[j] = true; j = perm[j]; } } }
                let r = guard(|| (l.components().len(), l.writhe()));
                match r {
                    Some((nc, wr)) => {
                        s.oracle(nc == cycles, "as many components as the braid permutation has cycles", &req, &format!("{} vs {}", nc, cycles));
                        let esum: i32 = w.iter().map(|x| x.signum()).sum();
                        s.oracle(wr == esum, "writhe equals the exponent sum", &req, &format!("{} vs {}", wr, esum));
                    }
                    None => s.oracle(false, "components / writhe of a braid closure return", &req, "panic"),
                }
            }
            if in_quantifier || w.is_empty() { s.case(&req, &relabel_str(&pd), !w.is_empty()); }
            else { s.count("B.outside-quantifier-returned"); s.eval_only(&format!("{} (outside quantifier) => returned", req), false); }
        }
    }
}

// ---------- malformed stream: must terminate ----------

fn case_malformed(s: &mut Sink, d: &Diag) {
    let txt = diag_str(d);
    let pd: Vec<[usize; 4]> = d.iter().map(|x| x.1).collect();
    let r = guard_timeout(10, move || {
        let l = Link::from_pd_code(pd);
        let a = guard(|| l.components().len());
        let b = guard(|| l.crossing_signs().len());
        (a.is_some(), b.is_some())
    });
    s.oracle(r.is_some(), "components / crossing_signs terminate (panic allowed) on a malformed PD code", &txt, "timeout");
    match r { Some(Some((a, b))) => { s.count(if a && b { "malformed.returned" } else { "malformed.panic" }); } _ => s.count("malformed.other") }
    s.eval_only(&format!("malformed {}", txt), true);
}

fn main() {
    let args = Args::parse();
    if std::env::var("C18_LOUD").is_err() { quiet_panics(); }
    let thorough = args.thorough();
    let mut s = Sink::new(&args, "non-trivial = at least one crossing (L/R/C/T) or a non-empty braid word whose closure exists (B)");
    let mut r = Rng::new(args.seed);
    let names = table_names();
    if names.is_empty() { s.count("WARNING.no-link-tables-found"); }

    // ----- hand-written corpus -----
    let corpus: Vec<(&str, Vec<[usize; 4]>)> = vec![
        ("empty", vec![]),
        ("kink+", vec![[0, 0, 1, 1]]), ("kink-", vec![[0, 1, 1, 0]]), ("kink-b", vec![[1, 0, 0, 1]]), ("kink+b", vec![[1, 1, 0, 0]]),
        ("hopf", vec![[4, 1, 3, 2], [2, 3, 1, 4]]),
        ("trefoil", vec![[1, 4, 2, 5], [3, 6, 4, 1], [5, 2, 6, 3]]),
        ("figure8", vec![[4, 2, 5, 1], [8, 6, 1, 5], [6, 3, 7, 4], [2, 7, 3, 8]]),
        ("unlink2", vec![[1, 2, 3, 4], [3, 2, 1, 4]]),
        ("l2x4", vec![[1, 5, 2, 8], [5, 3, 6, 2], [3, 7, 4, 6], [7, 1, 8, 4]]),
        ("over-only-2", vec![[0, 2, 1, 3], [1, 3, 0, 2]]),
        ("over-only-opposite", vec![[0, 2, 1, 3], [1, 2, 0, 3]]),
        ("two-over-loops", vec![[0, 2, 1, 2], [1, 3, 0, 3]]),
        ("two-kinks", vec![[0, 0, 1, 2], [1, 3, 3, 2]]),
        ("big-labels", vec![[1000, 4000, 2000, 5000], [3000, 6000, 4000, 1000], [5000, 2000, 6000, 3000]]),
    ];
    for (kind, pd) in &corpus {
        let d = from_pd(pd);
        let kind = format!("corpus:{}", kind);
        if let Some(o) = case_l(&mut s, &d, &kind) { if !d.is_empty() { variants(&mut s, &mut r, &d, &o, &kind); } }
        case_r(&mut s, &d);
        case_stepwise(&mut s, &mut r, &d);
        for i in 0..d.len() { for j in 0..4 { case_t(&mut s, &d, i, j); } }
    }
    for t in [CT::X, CT::Xm, CT::V, CT::H] {
        for e in [[0usize, 1, 2, 3], [0, 0, 1, 1], [0, 1, 1, 0], [5, 5, 5, 5], [1, 2, 1, 2], [3, 1, 1, 3]] {
            let c = Crossing::new(ct_real(t), e);
            let (a, b) = c.arcs();
            let want = |i: usize, j: usize| if e[i] == e[j] { (true, vec![e[i]]) } else { (false, canon_arc(&[e[i], e[j]])) };
            let st = strands(t);
            let mut w = vec![want(st[0].0, st[0].1), want(st[1].0, st[1].1)]; w.sort();
            let got = canon_paths(&[a.clone(), b.clone()]);
            s.oracle(got == w, "arcs of a crossing join the two labels of each strand", &format!("{}:{:?}", ct_str(t), e), &comps_str(&[a.clone(), b.clone()]));
            s.case(&format!("A {}:{},{},{},{}", ct_str(t), e[0], e[1], e[2], e[3]), &comps_str(&[a, b]), true);
            s.count("A.arcs");
        }
    }
    for (strands, w) in [(0usize, vec![]), (1, vec![]), (2, vec![]), (2, vec![1]), (2, vec![-1]), (2, vec![1, 1]), (2, vec![1, -1]), (2, vec![1, 1, 1]),
        (3, vec![1]), (3, vec![2]), (3, vec![1, 2]), (3, vec![1, -2, 1, -2]), (3, vec![3]), (3, vec![1, 2, 3]), (2, vec![2]),
        (5, vec![-1, -1, -2, 1, 3, 2, 2, -4, -3, 2, -3, -4]), (8, vec![1, 2, 3, 4, 5, 6, 7]), (8, vec![7, -6, 5, -4, 3, -2, 1])] {
        let used: BTreeSet<usize> = w.iter().map(|x: &i32| x.unsigned_abs() as usize).collect();
        let inq = strands >= 2 && (1..strands).all(|i| used.contains(&i)) && used.iter().all(|&i| i < strands);
        case_b(&mut s, strands, &w, inq);
    }

    // ----- table links -----
    let n_tables = if thorough { names.len().max(1) } else { 250 };
    let r_limit = if thorough { 13 } else { 10 };
    let mut r_budget_big: i64 = if thorough { 100 } else { 0 }; // number of 11..13-crossing diagrams fully enumerated
    for ti in 0..n_tables {
        if names.is_empty() { break }
        let name = if thorough { names[ti].clone() } else { r.pick(&names).clone() };
        let Some(d) = load_table(&name) else { s.count("table.load-failed"); continue };
        if !is_valid(&d) { s.count("table.invalid"); continue }
        if let Some(o) = case_l(&mut s, &d, "table") { variants(&mut s, &mut r, &d, &o, "table"); }
        if d.len() <= 12 && r.chance(1, 2) { case_stepwise(&mut s, &mut r, &d); }
        if d.len() <= 10 { if d.len() <= 8 || r.chance(1, 3) { case_r(&mut s, &d); } }
        else if d.len() <= r_limit && r_budget_big > 0 && r.chance(1, 4) { r_budget_big -= 1; case_r(&mut s, &d); }
        if r.chance(1, 8) { let i = r.below(d.len() as u64) as usize; let j = r.below(4) as usize; case_t(&mut s, &d, i, j); }
    }

    // ----- generated diagrams -----
    let mut r_budget_gen: i64 = if thorough { 120 } else { 0 };
    let n_gen = if thorough { 15000 } else { 1500 };
    for _ in 0..n_gen {
        let max_n = if r.chance(1, 6) { 24 } else if thorough && r.chance(1, 5) { 13 } else { 10 };
        let (d, kind) = gen_diag(&mut r, &names, max_n);
        if !is_valid(&d) { s.count("gen.invalid(bug in generator)"); s.oracle(false, "generator produced an invalid PD code (harness bug)", &diag_str(&d), &kind); continue }
        if !Orient::new(&d).consistent { s.count("gen.inconsistent(bug in generator)"); s.oracle(false, "generator produced an inconsistently oriented code (harness bug)", &diag_str(&d), &kind); continue }
        if let Some(o) = case_l(&mut s, &d, &kind) { if r.chance(1, 2) { variants(&mut s, &mut r, &d, &o, &kind); } }
        let n = d.len();
        if n <= 12 && r.chance(1, 2) { case_stepwise(&mut s, &mut r, &d); }
        if n <= 7 || (n <= 10 && r.chance(1, 4)) { case_r(&mut s, &d); }
        else if n <= r_limit && r_budget_gen > 0 && (n >= 12 || r.chance(1, 3)) { r_budget_gen -= 1; case_r(&mut s, &d); }
        if r.chance(1, 6) && n > 0 {
            // partially resolved
            let mut p = d.clone();
            for x in p.iter_mut() { if r.bool() { x.0 = resolve_ct(x.0, r.bool()); } }
            case_c(&mut s, &p);
        }
        if r.chance(1, 6) && n > 0 { let i = r.below(n as u64) as usize; let j = r.below(4) as usize; case_t(&mut s, &d, i, j); }
    }

    // ----- braid words -----
    let n_braid = if thorough { 25000 } else { 2500 };
    for _ in 0..n_braid {
        let strands = 2 + r.below(7) as usize;
        if r.chance(1, 12) {
            // outside the quantifier: unused strand, index out of range, zero strands
            let strands = r.below(5) as usize;
            let len = r.below(5) as usize;
            let w: Vec<i32> = (0..len).map(|_| { let i = 1 + r.below(5) as i32; if r.bool() { i } else { -i } }).collect();
            let used: BTreeSet<usize> = w.iter().map(|x| x.unsigned_abs() as usize).collect();
            let inq = strands >= 2 && (1..strands).all(|i| used.contains(&i)) && used.iter().all(|&i| i < strands);
            case_b(&mut s, strands, &w, inq);
            continue
        }
        let extra = if r.chance(1, 10) { r.below(40) as usize } else { r.below(12) as usize };
        let w = rand_word(&mut r, strands, extra);
        case_b(&mut s, strands, &w, true);
    }
    if thorough {
        // exhaustive: all words of length ≤ 5 on 2 and 3 strands (that use every strand), length ≤ 4 on 4 strands
        for (strands, maxlen) in [(2usize, 6usize), (3, 5), (4, 4)] {
            let letters: Vec<i32> = (1..strands as i32).flat_map(|i| [i, -i]).collect();
            for len in 0..=maxlen {
                let total = letters.len().pow(len as u32);
                for k in 0..total {
                    let mut kk = k; let mut w = vec![];
                    for _ in 0..len { w.push(letters[kk % letters.len()]); kk /= letters.len(); }
                    let used: BTreeSet<usize> = w.iter().map(|x| x.unsigned_abs() as usize).collect();
                    let inq = (1..strands).all(|i| used.contains(&i));
                    case_b(&mut s, strands, &w, inq);
                }
            }
        }
    }

    // ----- malformed PD codes: must terminate -----
    let n_mal = if thorough { 400 } else { 60 };
    for pd in [vec![[1usize, 2, 1, 1]], vec![[1, 1, 1, 1]], vec![[1, 2, 3, 4]], vec![[1, 2, 3, 1], [2, 3, 1, 1]]] { case_malformed(&mut s, &from_pd(&pd)); }
    for _ in 0..n_mal {
        let n = 1 + r.below(4) as usize;
        let k = 1 + r.below(2 * n as u64 + 1) as usize;
        let d: Diag = (0..n).map(|_| (CT::X, [r.below(k as u64) as usize, r.below(k as u64) as usize, r.below(k as u64) as usize, r.below(k as u64) as usize])).collect();
        if is_valid(&d) { continue }
        case_malformed(&mut s, &d);
    }

    s.finish();
}
