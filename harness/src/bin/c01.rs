//! C01 — Khovanov homology reported by the library vs. the cube-of-resolutions reference (Lean `KhRef`).
use num_bigint::BigInt;
use yui::{EucRing, EucRingOps, Ratio, FF, FF2};
use yui_homology::{GridTrait, SummandTrait};
use yui_kh::kh::{KhHomology, KhHomologyBigraded};
use yui_kh::kh::internal::v2::cob::LcCobTrait;
use yui_kh::kh::internal::v2::tng_complex::TngComplex;
use yui_kh::kh::internal::v2::builder::TngComplexBuilder;
use yui_link::Link;
use yui::bitseq::Bit;
use yv::links::*;
use yv::*;

fn kh_table<R>(l: &Link, h: &R, t: &R, red: bool, bigr: bool, tor: &dyn Fn(&R) -> BigInt) -> String
where R: EucRing, for<'x> &'x R: EucRingOps<R> {
    let mut cells = vec![];
    if bigr {
        let kh = KhHomologyBigraded::new(l, h, t, red);
        for idx in kh.support() {
            let s = kh.get(idx);
            cells.push(((idx.0, Some(idx.1)), group_txt(s.rank(), s.tors().iter().map(|x| tor(x)).collect())));
        }
    } else {
        let kh = KhHomology::new(l, h, t, red);
        for i in kh.support() {
            let s = kh.get(i);
            cells.push(((i, None), group_txt(s.rank(), s.tors().iter().map(|x| tor(x)).collect())));
        }
    }
    table_txt(cells)
}

/// a different route through the engine's public building blocks (Bar-Natan's local bracket, divide and conquer):
/// the crossings are split into two sub-tangles, each absorbed into its own `TngComplex` carrying the degree shift of its
/// own crossings, simplified by delooping / Gaussian elimination in a RANDOM order, then composed with `connect`.
fn simplify<R>(c: &mut TngComplex<R>, r: &mut Rng)
where R: EucRing, for<'x> &'x R: EucRingOps<R> {
    loop {
        let mut cands: Vec<_> = c.keys().flat_map(|k| c.vertex(k).tng().comps().enumerate().filter(|(_, a)| a.is_circle()).map(|(i, _)| (*k, i)).collect::<Vec<_>>()).collect();
        if cands.is_empty() { break }
        cands.sort();
        let (k, i) = cands[r.below(cands.len() as u64) as usize];
        c.deloop(&k, i);
    }
    loop {
        let mut cands: Vec<_> = c.keys().flat_map(|k| c.keys_out_from(k).filter(|l| c.edge(k, l).is_invertible()).map(|l| (*k, *l)).collect::<Vec<_>>()).collect();
        if cands.is_empty() { break }
        cands.sort();
        let (k, l) = cands[r.below(cands.len() as u64) as usize];
        c.eliminate(&k, &l);
    }
}

fn kh_by_halves<R>(l: &Link, order: &[usize], split: usize, h: &R, t: &R, bigr: bool, tor: &dyn Fn(&R) -> BigInt, r: &mut Rng) -> String
where R: EucRing, for<'x> &'x R: EucRingOps<R> {
    let signs = l.crossing_signs();
    let mut bracket = |idx: &[usize], r: &mut Rng| {
        let n_pos = idx.iter().filter(|&&i| signs[i].is_positive()).count() as isize;
        let n_neg = idx.len() as isize - n_pos;
        let mut c = TngComplex::<R>::init(h, t, (-n_neg, n_pos - 2 * n_neg), None);
        for &i in idx { c.append(&l.data()[i]); if r.bool() { simplify(&mut c, r); } }
        simplify(&mut c, r);
        c
    };
    let mut ca = bracket(&order[..split], r);
    let cb = bracket(&order[split..], r);
    ca.connect(cb);
    simplify(&mut ca, r);
    assert!(ca.is_completely_delooped());
    let kh = ca.into_kh_complex(vec![]).homology();
    let mut cells = vec![];
    if bigr {
        let kh = kh.into_bigraded();
        for idx in kh.support() { let s = kh.get(idx); cells.push(((idx.0, Some(idx.1)), group_txt(s.rank(), s.tors().iter().map(|x| tor(x)).collect()))); }
    } else {
        for i in kh.support() { let s = kh.get(i); cells.push(((i, None), group_txt(s.rank(), s.tors().iter().map(|x| tor(x)).collect()))); }
    }
    table_txt(cells)
}

/// the builder's public switches: deferred delooping, deferred / explicit elimination, crossings handed over in a random order
fn kh_by_builder<R>(l: &Link, crossings: Vec<yui_link::Crossing>, auto_deloop: bool, auto_elim: bool, elim_at_end: bool, h: &R, t: &R, red: bool, tor: &dyn Fn(&R) -> BigInt) -> String
where R: EucRing, for<'x> &'x R: EucRingOps<R> {
    let base = if red { l.first_edge() } else { None };
    let mut b = TngComplexBuilder::<R>::new(l, h, t, base);
    b.auto_deloop = auto_deloop;
    b.auto_elim = auto_elim;
    b.set_crossings(crossings);
    b.process_all();
    b.finalize();
    if elim_at_end { b.eliminate_all(); }
    let kh = b.into_kh_complex().homology();
    let cells = kh.support().map(|i| { let s = kh.get(i); ((i, None), group_txt(s.rank(), s.tors().iter().map(|x| tor(x)).collect())) }).collect();
    table_txt(cells)
}

fn builder_case(s: &mut Sink, r: &mut Rng, c: &Case) {
    let l = c.link.clone();
    if l.data().len() < 2 { return }
    let mut xs = l.data().clone();
    if r.bool() { r.shuffle(&mut xs); }
    let (ad, ae, end) = match r.below(4) { 0 => (false, true, false), 1 => (true, false, true), 2 => (false, false, r.bool()), _ => (true, false, false) };
    let (h, t) = *r.pick(&[(0i64, 0i64), (1, 0), (0, 1), (2, 3)]);
    let red = t == 0 && !l.is_empty() && r.chance(1, 3);
    let ring = *r.pick(&[RingTag::Z64, RingTag::Q, RingTag::F2, RingTag::F3]);
    let req = format!("kh {} {} {} {} 0 {}", ring.coeff(), h, t, red as u8, link_txt(&l));
    let l2 = l.clone();
    let xs2 = xs.clone();
    let got = guard_timeout(120, move || match ring {
        RingTag::Q => kh_by_builder::<Ratio<i64>>(&l2, xs, ad, ae, end, &Ratio::from(h), &Ratio::from(t), red, &|_| BigInt::from(0)),
        RingTag::F2 => kh_by_builder::<FF2>(&l2, xs, ad, ae, end, &FF2::from(h), &FF2::from(t), red, &|_| BigInt::from(0)),
        RingTag::F3 => kh_by_builder::<FF<3>>(&l2, xs, ad, ae, end, &FF::<3>::new(h as i32), &FF::<3>::new(t as i32), red, &|_| BigInt::from(0)),
        _ => kh_by_builder::<i64>(&l2, xs, ad, ae, end, &h, &t, red, &|x| BigInt::from(*x)),
    });
    let mut reply: String = match got { Some(Some(tbl)) => format!("signs={} {}", signs_txt(&l), tbl), None => "timeout".into(), _ => "panic".into() };
    if reply == "panic" && matches!(ring, RingTag::Z64 | RingTag::Q) {
        // fixed-width coefficients may overflow (overflow checks are on): the property is about Z and Q, so repeat the SAME route in
        // arbitrary precision; only if that panics as well (or gives a table the specification rejects) is it a violation
        let (l3, xs3) = (l.clone(), xs2.clone());
        let again = guard_timeout(240, move || match ring {
            RingTag::Q => kh_by_builder::<Ratio<BigInt>>(&l3, xs3, ad, ae, end, &Ratio::from(BigInt::from(h)), &Ratio::from(BigInt::from(t)), red, &|_| BigInt::from(0)),
            _ => kh_by_builder::<BigInt>(&l3, xs3, ad, ae, end, &BigInt::from(h), &BigInt::from(t), red, &|x| x.clone()),
        });
        if let Some(Some(tbl)) = again { reply = format!("signs={} {}", signs_txt(&l), tbl); s.count("machine-overflow.repeated-in-arbitrary-precision"); }
    }
    s.oracle(!(reply == "timeout" || reply == "panic"), "the builder's public switches (deferred delooping / elimination, any crossing order) terminate without panic on a valid diagram",
        &format!("{} [{} auto_deloop={} auto_elim={} eliminate_all_at_end={}]", req, c.name, ad, ae, end), &reply);
    s.count("route.builder-switches");
    s.case(&req, &reply, true);
}

fn halves_case(s: &mut Sink, r: &mut Rng, c: &Case) {
    let l = c.link.clone();
    let n = l.data().len();
    if n < 2 || !is_plain_pd(&l) { return }
    let mut order: Vec<usize> = (0..n).collect();
    if r.bool() { r.shuffle(&mut order); }
    let split = 1 + r.below(n as u64 - 1) as usize;
    let (h, t) = *r.pick(&[(0i64, 0i64), (0, 0), (1, 0), (0, 1), (2, 3)]);
    let bigr = (h, t) == (0, 0) && r.bool();
    let ring = *r.pick(&[RingTag::Z64, RingTag::Z64, RingTag::Q, RingTag::F3]);
    let req = format!("kh {} {} {} 0 {} {}", ring.coeff(), h, t, bigr as u8, link_txt(&l));
    let mut r2 = r.fork();
    let mut r3 = r2.clone();
    let (l2, o2) = (l.clone(), order.clone());
    let got = guard_timeout(120, move || match ring {
        RingTag::Q => kh_by_halves::<Ratio<i64>>(&l2, &o2, split, &Ratio::from(h), &Ratio::from(t), bigr, &|_| BigInt::from(0), &mut r2),
        RingTag::F3 => kh_by_halves::<FF<3>>(&l2, &o2, split, &FF::<3>::new(h as i32), &FF::<3>::new(t as i32), bigr, &|_| BigInt::from(0), &mut r2),
        _ => kh_by_halves::<i64>(&l2, &o2, split, &h, &t, bigr, &|x| BigInt::from(*x), &mut r2),
    });
    let mut reply: String = match got { Some(Some(tbl)) => format!("signs={} {}", signs_txt(&l), tbl), None => "timeout".into(), _ => "panic".into() };
    if reply == "panic" && matches!(ring, RingTag::Z64 | RingTag::Q) {
        // see builder_case: the same route and the same random choices, in arbitrary precision
        let (l3, o3) = (l.clone(), order.clone());
        let again = guard_timeout(240, move || match ring {
            RingTag::Q => kh_by_halves::<Ratio<BigInt>>(&l3, &o3, split, &Ratio::from(BigInt::from(h)), &Ratio::from(BigInt::from(t)), bigr, &|_| BigInt::from(0), &mut r3),
            _ => kh_by_halves::<BigInt>(&l3, &o3, split, &BigInt::from(h), &BigInt::from(t), bigr, &|x| x.clone(), &mut r3),
        });
        if let Some(Some(tbl)) = again { reply = format!("signs={} {}", signs_txt(&l), tbl); s.count("machine-overflow.repeated-in-arbitrary-precision"); }
    }
    s.oracle(!(reply == "timeout" || reply == "panic"), "composing two sub-tangle complexes (divide and conquer) terminates without panic on a valid diagram",
        &format!("{} [{} order={:?} split={}]", req, c.name, order, split), &reply);
    s.count("route.divide-and-conquer");
    s.case(&req, &reply, n >= 2);
}

#[derive(Clone, Copy, Debug, PartialEq)]
enum RingTag { Z64, ZBig, Q, F2, F3 }

impl RingTag {
    fn coeff(&self) -> &'static str { match self { RingTag::Z64 | RingTag::ZBig => "Z", RingTag::Q => "Q", RingTag::F2 => "F2", RingTag::F3 => "F3" } }
}

fn run_kh(l: &Link, ring: RingTag, h: i64, t: i64, red: bool, bigr: bool) -> String {
    match ring {
        RingTag::Z64 => kh_table::<i64>(l, &h, &t, red, bigr, &|x| BigInt::from(*x)),
        RingTag::ZBig => kh_table::<BigInt>(l, &BigInt::from(h), &BigInt::from(t), red, bigr, &|x| x.clone()),
        RingTag::Q => kh_table::<Ratio<i64>>(l, &Ratio::from(h), &Ratio::from(t), red, bigr, &|_| BigInt::from(0)),
        RingTag::F2 => kh_table::<FF2>(l, &FF2::from(h), &FF2::from(t), red, bigr, &|_| BigInt::from(0)),
        RingTag::F3 => kh_table::<FF<3>>(l, &FF::<3>::new(h as i32), &FF::<3>::new(t as i32), red, bigr, &|_| BigInt::from(0)),
    }
}

struct Case { name: String, link: Link }

fn one(s: &mut Sink, c: &Case, ring: RingTag, h: i64, t: i64, red: bool, bigr: bool, threads: usize) {
    let l = c.link.clone();
    let req = format!("kh {} {} {} {} {} {}", ring.coeff(), h, t, red as u8, bigr as u8, link_txt(&l));
    let signs = guard(|| signs_txt(&l));
    let l2 = l.clone();
    let got = guard_timeout(120, move || {
        if threads == 0 { run_kh(&l2, ring, h, t, red, bigr) }
        else { rayon::ThreadPoolBuilder::new().num_threads(threads).build().unwrap().install(|| run_kh(&l2, ring, h, t, red, bigr)) }
    });
    // the engine's elimination order follows randomly seeded hash maps: over rings whose units are not all self-inverse
    // build the same case again and require the same table ("does not depend on which elimination steps were taken")
    if matches!(ring, RingTag::Q | RingTag::F3) && l.crossing_num() >= 5 {
        if let Some(Some(first)) = &got {
            for rep in 0..2 {
                let l3 = l.clone();
                let again = guard_timeout(120, move || run_kh(&l3, ring, h, t, red, bigr));
                if let Some(Some(tbl)) = again {
                    s.oracle(&tbl == first, "the reported homology does not depend on the elimination order (same input, repeated build)",
                        &format!("{} [{} ring={:?} rebuild#{}]", req, c.name, ring, rep + 1), &format!("{} vs {}", first, tbl));
                }
            }
            s.count("rebuilds");
        }
    }
    let mut reply = match (signs.clone(), got) {
        (Some(sg), Some(Some(tbl))) => format!("signs={} {}", sg, tbl),
        (_, None) => "timeout".to_string(),
        _ => "panic".to_string(),
    };
    if reply == "panic" && signs.is_some() && matches!(ring, RingTag::Z64 | RingTag::Q) {
        // fixed-width overflow (checked arithmetic): repeat in arbitrary precision — Z as BigInt, Q as Ratio<BigInt>
        let l4 = l.clone();
        let again = guard_timeout(240, move || match ring {
            RingTag::Q => kh_table::<Ratio<BigInt>>(&l4, &Ratio::from(BigInt::from(h)), &Ratio::from(BigInt::from(t)), red, bigr, &|_| BigInt::from(0)),
            _ => run_kh(&l4, RingTag::ZBig, h, t, red, bigr),
        });
        if let Some(Some(tbl)) = again { reply = format!("signs={} {}", signs.clone().unwrap(), tbl); s.count("machine-overflow.repeated-in-arbitrary-precision"); }
    }
    // the library must terminate without panicking on every valid diagram
    s.oracle(!(reply == "timeout" || reply == "panic"), "the library computes Kh of a valid diagram without panic/hang",
        &format!("{} [{} ring={:?} threads={}]", req, c.name, ring, threads), &reply);
    s.count(&format!("ring.{:?}", ring));
    s.count(&format!("crossings.{}", l.crossing_num()));
    s.count(if red { "reduced" } else { "unreduced" });
    s.count(if bigr { "bigraded" } else { "graded" });
    s.count(&format!("ht.{},{}", h, t));
    s.count(&format!("threads.{}", threads));
    if reply.contains(':') && reply.matches(':').count() > 2 { s.count("table.multi-cell"); }
    if reply.split(' ').any(|c| c.split(':').nth(2).map(|t| !t.is_empty()).unwrap_or(false)) { s.count("table.with-torsion"); }
    s.case(&req, &reply, l.crossing_num() >= 2);
}

fn variants(s: &mut Sink, r: &mut Rng, c: &Case, thorough: bool) {
    let rings = [RingTag::Z64, RingTag::ZBig, RingTag::Q, RingTag::F2, RingTag::F3];
    let hts: [(i64, i64); 5] = [(0, 0), (1, 0), (0, 1), (2, 3), (-1, 5)];
    let nonempty = !c.link.is_empty();
    // the full product on small diagrams, a random sample on bigger ones
    let n = c.link.crossing_num();
    let full = n <= 3 || (thorough && n <= 5);
    for &ring in &rings {
        for &(h, t) in &hts {
            for red in [false, true] {
                if red && (t != 0 || !nonempty) { continue }
                for bigr in [false, true] {
                    if bigr && (h, t) != (0, 0) { continue }
                    if !full && !r.chance(1, if thorough { 3 } else { 6 }) { continue }
                    let threads = *r.pick(&[0usize, 1, 2, 8]);
                    one(s, c, ring, h, t, red, bigr, threads);
                }
            }
        }
    }
}

fn main() {
    let args = Args::parse();
    quiet_panics();
    let thorough = args.thorough();
    let mut s = Sink::new(&args, "cases: (link diagram, ring in {i64,BigInt,Ratio,FF2,FF<3>}, (h,t) in {(0,0),(1,0),(0,1),(2,3),(-1,5)}, reduced?, bigraded?, rayon threads in {default,1,2,8}); \
        diagrams: corner cases (empty, unknot, kinks, unlinks, split), the yui-link table up to a crossing bound, closures of random braid words, \
        kinked / renumbered / crossing-reordered variants; the library's table (rank, torsion in chain form per degree/bidegree) is compared with the Lean \
        cube-of-resolutions reference; non-trivial = diagram with >= 2 crossings; distinct = distinct request lines");
    let mut r = Rng::new(args.seed);
    let mut cases: Vec<Case> = vec![];
    let mk = |name: &str, link: Link| Case { name: name.to_string(), link };

    // corner cases
    cases.push(mk("empty", Link::empty()));
    cases.push(mk("unknot", Link::unknot()));
    cases.push(mk("kink+", Link::from_pd_code([[0, 0, 1, 1]])));
    cases.push(mk("kink-", Link::from_pd_code([[0, 1, 1, 0]])));
    cases.push(mk("kink-b", Link::from_pd_code([[1, 0, 0, 1]])));
    cases.push(mk("unlink2", Link::from_pd_code([[0, 0, 1, 1]]).resolved_at(0, Bit::Bit0)));
    cases.push(mk("unlink2b", Link::from_pd_code([[0, 1, 1, 0]]).resolved_at(0, Bit::Bit1)));
    cases.push(mk("hopf", Link::hopf_link()));
    cases.push(mk("hopf-mirror", Link::hopf_link().mirror()));
    cases.push(mk("trefoil", Link::trefoil()));
    cases.push(mk("trefoil-mirror", Link::trefoil().mirror()));
    cases.push(mk("figure8", Link::figure8()));
    // split union of a trefoil and a hopf link (labels shifted)
    {
        let mut pd = pd_of(&Link::trefoil());
        pd.extend(pd_of(&Link::hopf_link()).into_iter().map(|c| c.map(|e| e + 10)));
        cases.push(mk("split:trefoil+hopf", link_of(&pd)));
    }
    // sigma1 sigma1^-1 on 2 strands: a component that only passes over
    if let Some(l) = braid_closure(2, &[1, -1]) { cases.push(mk("braid[1,-1]", l)); }

    // table links
    let max_tbl = if thorough { 8 } else { 6 };
    let mut names = table_names(max_tbl);
    if !thorough { r.shuffle(&mut names); names.truncate(22); }
    else { r.shuffle(&mut names); names.truncate(45); }
    for n in names { if let Some(l) = load(&n) { cases.push(mk(&n, l)); } }

    // random braid closures
    let n_braids = if thorough { 60 } else { 30 };
    for _ in 0..n_braids {
        let strands = 2 + r.below(if thorough { 4 } else { 3 }) as usize;
        let len = (strands - 1) + r.below(if thorough { 6 } else { 4 }) as usize;
        let (w, l) = random_braid(&mut r, strands, len.min(if thorough { 8 } else { 6 }));
        if let Some(l) = l { cases.push(mk(&format!("braid{}{:?}", strands, w), l)); }
    }

    // variants of the plain PD codes: kinks, renumbering, reordering
    let base: Vec<(String, Pd)> = cases.iter().filter(|c| is_plain_pd(&c.link) && !c.link.is_empty()).map(|c| (c.name.clone(), pd_of(&c.link))).collect();
    let n_var = if thorough { 50 } else { 24 };
    for _ in 0..n_var {
        let (name, pd) = r.pick(&base).clone();
        if pd.len() > (if thorough { 7 } else { 5 }) { continue }
        let mut p = pd;
        let mut tag = String::new();
        for _ in 0..(1 + r.below(2)) {
            match r.below(3) {
                0 => { if let Some(q) = add_kink(&mut r, &p) { p = q; tag.push_str("+kink"); } }
                1 => { p = renumber(&mut r, &p); tag.push_str("+renum"); }
                _ => { p = reorder(&mut r, &p); tag.push_str("+reorder"); }
            }
        }
        cases.push(mk(&format!("{}{}", name, tag), link_of(&p)));
    }

    for c in &cases {
        let n = c.link.crossing_num();
        if n > (if thorough { 9 } else { 7 }) { continue }
        s.count(&format!("diagram.{}", c.name.split(|ch: char| !ch.is_ascii_alphabetic()).next().unwrap_or("other")));
        guarded_case(&mut s, &c.name, |s| variants(s, &mut r, c, thorough));
        if n <= (if thorough { 8 } else { 6 }) { for _ in 0..(if thorough { 4 } else { 2 }) { guarded_case(&mut s, &c.name, |s| halves_case(s, &mut r, c)); guarded_case(&mut s, &c.name, |s| builder_case(s, &mut r, c)); } }
    }
    // knots whose complex over Q has pivots other than ±1 (7_7 and several 8-crossing knots): Q only, h = t = 0 and one other pair,
    // each built through `one` (which rebuilds twice and compares) — the place where non-self-inverse units matter
    {
        let mut qs = vec!["7_7", "8_11", "8_13", "8_14", "8_15", "8_17", "8_18", "8_21"];
        if !thorough { r.shuffle(&mut qs); qs.truncate(4); }
        for n in qs {
            let Some(l) = load(n) else { continue };
            let c = mk(n, l);
            guarded_case(&mut s, n, |s| one(s, &c, RingTag::Q, 0, 0, false, true, 0));
            let (h, t) = *r.pick(&[(1i64, 0i64), (0, 1), (2, 3)]);
            guarded_case(&mut s, n, |s| one(s, &c, RingTag::Q, h, t, false, false, 0));
            s.count("q-stress");
        }
    }
    // non-alternating multi-component links (their simplification glues cobordism components with handles along single arcs): built
    // several times each, since the elimination order follows randomly seeded hash maps
    {
        let mut ls = vec!["L6n1", "L7n1", "L7n2", "L8n1", "L8n2", "L8n3", "L8n4", "L8n5", "L8n6", "L8n7", "L8n8"];
        if !thorough { r.shuffle(&mut ls); ls.truncate(5); if !ls.contains(&"L8n3") { ls.push("L8n3"); } }
        for n in ls {
            let Some(l) = load(n) else { continue };
            let c = mk(n, l.clone());
            let cm = mk(&format!("{}-mirror", n), l.mirror());
            for _ in 0..(if thorough { 4 } else { 3 }) {
                guarded_case(&mut s, n, |s| one(s, &c, RingTag::Z64, 0, 0, false, true, 0));
                guarded_case(&mut s, n, |s| one(s, &cm, RingTag::Z64, 0, 0, r.bool(), false, 0));
            }
            s.count("nonalternating-link-stress");
        }
        // the two smallest links on which a wrong genus in a single-arc gluing was observed, many builds (10–50 % of the builds
        // of a faulty engine go wrong there)
        for n in ["L8n3", "L8n2"] {
            let Some(l) = load(n) else { continue };
            let cm = mk(&format!("{}-mirror", n), l.mirror());
            for k in 0..(if thorough { 30 } else { 12 }) { guarded_case(&mut s, n, |s| one(s, &cm, RingTag::Z64, 0, 0, k % 2 == 1, k % 4 < 2, 0)); }
        }
    }
    s.finish();
}
