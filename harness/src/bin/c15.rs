//! C15 — Euclidean-domain operations of `yui`: every clause of the property is evaluated on the real code
//! (oracle, with arithmetic done independently in `BigInt` for integers and quadratic integers), and the
//! uniquely determined outputs are sent to the Lean model (`Z | G | E | Q | F<p> | PQ | PF3 | HQ | HF3`).
//!
//! nontrivial rule: a case counts as non-trivial when both operands are non-zero non-units (binary ops)
//! resp. the operand is non-zero (unary ops).
use num_bigint::BigInt;
use num_traits::{One, Signed, ToPrimitive, Zero};
use std::fmt::Debug;
use yui::poly::{HPoly, Poly, Var};
use yui::{DivRound, EisenInt, EucRing, EucRingOps, GaussInt, IntOps, Integer, Ratio, Ring, FF};
use yv::rings::Txt;
use yv::*;

// ------------------------------------------------------------------------------------------------
// integers
// ------------------------------------------------------------------------------------------------

trait MInt: Integer + Txt + Debug + 'static
where for<'x> &'x Self: IntOps<Self> {
    const TAG: &'static str;
    const MACHINE: bool;
    fn big(&self) -> BigInt;
    fn from_big(b: &BigInt) -> Option<Self>;
}
impl MInt for i32 { const TAG: &'static str = "i32"; const MACHINE: bool = true; fn big(&self) -> BigInt { BigInt::from(*self) } fn from_big(b: &BigInt) -> Option<Self> { b.to_i32() } }
impl MInt for i64 { const TAG: &'static str = "i64"; const MACHINE: bool = true; fn big(&self) -> BigInt { BigInt::from(*self) } fn from_big(b: &BigInt) -> Option<Self> { b.to_i64() } }
impl MInt for i128 { const TAG: &'static str = "i128"; const MACHINE: bool = true; fn big(&self) -> BigInt { BigInt::from(*self) } fn from_big(b: &BigInt) -> Option<Self> { b.to_i128() } }
impl MInt for BigInt { const TAG: &'static str = "big"; const MACHINE: bool = false; fn big(&self) -> BigInt { self.clone() } fn from_big(b: &BigInt) -> Option<Self> { Some(b.clone()) } }

/// independent reference arithmetic (only `+ - *`, comparison and truncating division of `BigInt`)
fn ref_gcd(a: &BigInt, b: &BigInt) -> BigInt {
    let (mut x, mut y) = (a.abs(), b.abs());
    while !y.is_zero() { let r = &x % &y; x = y; y = r; }
    x
}
fn ref_round_div(a: &BigInt, b: &BigInt) -> BigInt {
    // nearest integer to a/b, ties away from zero
    let (q, r) = (a / b, a % b);
    if (r.abs() * 2) >= b.abs() { if a.is_negative() == b.is_negative() { q + 1 } else { q - 1 } } else { q }
}

/// Settle a guarded call on (possibly machine) integers. `math` is the mathematical result
/// (`None`: not defined, i.e. division by zero). Returns true when the case is to be sent to the model.
fn settle<T: MInt>(s: &mut Sink, op: &str, inp: &str, got_panic: bool, math: Option<&BigInt>) -> bool
where for<'x> &'x T: IntOps<T> {
    match (got_panic, math) {
        (false, _) => true,
        (true, None) => { s.count("outcome.panic.div-by-zero"); true }
        (true, Some(m)) => {
            if !T::MACHINE {
                s.oracle(false, "the implementation panicked on operands with a defined result", inp, op);
                false
            } else if T::from_big(m).is_some() {
                known_panic(s, T::TAG, op, inp, &format!("{} expected {}", op, m));
                false
            } else {
                s.count("skipped.result-unrepresentable");
                false
            }
        }
    }
}

/// a machine-integer call panicked although operands and mathematical result are representable
/// (all known instances involve `T::MIN`): recorded as `KNOWN?`, at most two records per (type, operation)
fn known_panic(s: &mut Sink, tag: &str, op: &str, inp: &str, detail: &str) {
    let key = format!("known-panic.{}.{}", tag, op);
    s.count(&key);
    if s.counters[&key] <= 2 {
        s.oracle(false, &format!("KNOWN? machine-integer {} panics although operands and result are representable", op), inp, detail);
    }
}

fn opt_txt<T: Txt>(x: &Option<T>) -> String { match x { Some(v) => v.txt(), None => "panic".into() } }

fn int_pair<T: MInt>(s: &mut Sink, ab: &BigInt, bb: &BigInt)
where for<'x> &'x T: IntOps<T> {
    let (Some(a), Some(b)) = (T::from_big(ab), T::from_big(bb)) else { return };
    let ring = format!("Z.{}", T::TAG);
    let inp = format!("{} a={} b={}", ring, ab, bb);
    let nontriv = ab.abs() > BigInt::one() && bb.abs() > BigInt::one();
    s.count(&format!("pairs.{}", ring));
    let bnz = !bb.is_zero();

    // a / b, a % b
    let q = guard(|| &a / &b);
    let r = guard(|| &a % &b);
    let mq = if bnz { Some(ab / bb) } else { None };
    let mr = if bnz { Some(ab % bb) } else { None };
    if settle::<T>(s, "div", &inp, q.is_none(), mq.as_ref()) { s.case(&format!("{} div {} {}", ring, ab, bb), &opt_txt(&q), nontriv); }
    if settle::<T>(s, "rem", &inp, r.is_none(), mr.as_ref()) { s.case(&format!("{} rem {} {}", ring, ab, bb), &opt_txt(&r), nontriv); }
    if let (Some(q), Some(r), true) = (&q, &r, bnz) {
        let (qb, rb) = (q.big(), r.big());
        s.oracle(ab == &(&qb * bb + &rb), "a = (a/b)*b + (a%b)", &inp, &format!("q={} r={}", qb, rb));
        s.oracle(rb.is_zero() || rb.abs() < bb.abs(), "remainder is zero or of strictly smaller norm than b", &inp, &format!("r={}", rb));
    }

    // div_round
    let d = guard(|| a.div_round(&b));
    let md = if bnz { Some(ref_round_div(ab, bb)) } else { None };
    if settle::<T>(s, "div_round", &inp, d.is_none(), md.as_ref()) { s.case(&format!("{} dr {} {}", ring, ab, bb), &opt_txt(&d), nontriv); }
    if let (Some(d), true) = (&d, bnz) {
        let e = (ab - d.big() * bb).abs() * 2;
        s.oracle(e <= bb.abs(), "div_round returns the exactly rounded quotient: 2|a - q b| <= |b|", &inp, &format!("q={}", d.big()));
    }

    // gcd, gcdx, lcm
    let mg = ref_gcd(ab, bb);
    let g = guard(|| <T as EucRing>::gcd(&a, &b));
    if settle::<T>(s, "gcd", &inp, g.is_none(), Some(&mg)) { s.case(&format!("{} gcd {} {}", ring, ab, bb), &opt_txt(&g), nontriv); }
    if let Some(g) = &g {
        let gb = g.big();
        let divs = |x: &BigInt| if gb.is_zero() { x.is_zero() } else { (x % &gb).is_zero() };
        s.oracle(divs(ab) && divs(bb), "gcd(a,b) divides a and b", &inp, &format!("g={}", gb));
        s.oracle(!gb.is_negative(), "gcd(a,b) is the normalised associate", &inp, &format!("g={}", gb));
        let n = guard(|| g.normalized());
        s.oracle(n.as_ref() == Some(g), "gcd(a,b) is the normalised associate (normalized(g) = g)", &inp, &format!("g={}", gb));
        if let Some(g2) = guard(|| <T as EucRing>::gcd(&b, &a)) {
            s.oracle(&g2 == g, "gcd(a,b) = gcd(b,a)", &inp, &format!("{} vs {}", gb, g2.big()));
        }
    }
    let gx = guard(|| <T as EucRing>::gcdx(&a, &b));
    if settle::<T>(s, "gcdx", &inp, gx.is_none(), Some(&mg)) {
        s.case(&format!("{} gcdx {} {}", ring, ab, bb), &match &gx { Some((d, _, _)) => d.txt(), None => "panic".into() }, nontriv);
    }
    if let Some((d, x, y)) = &gx {
        s.oracle(x.big() * ab + y.big() * bb == d.big(), "gcd = s*a + t*b with the returned s, t", &inp, &format!("d={} s={} t={}", d.big(), x.big(), y.big()));
        if let Some(g) = &g { s.oracle(g == d, "gcdx returns the gcd", &inp, &format!("gcd={} gcdx.0={}", g.big(), d.big())); }
    }
    let ml = if mg.is_zero() { BigInt::zero() } else { (ab * bb).abs() / &mg };
    let l = guard(|| <T as EucRing>::lcm(&a, &b));
    if settle::<T>(s, "lcm", &inp, l.is_none(), Some(&ml)) { s.case(&format!("{} lcm {} {}", ring, ab, bb), &opt_txt(&l), nontriv); }
    if let (Some(l), Some(g)) = (&l, &g) {
        if !(ab.is_zero() && bb.is_zero()) {
            s.oracle((l.big() * g.big()).abs() == (ab * bb).abs(), "lcm*gcd is an associate of a*b", &inp, &format!("l={} g={}", l.big(), g.big()));
        }
    }
    // divides
    let dv = guard(|| a.divides(&b));
    let mdv = !ab.is_zero() && (bb % ab).is_zero();
    match dv {
        Some(v) => {
            s.oracle(v == mdv, "a.divides(b) iff a != 0 and a | b", &inp, &format!("{}", v));
            s.case(&format!("{} divides {} {}", ring, ab, bb), &v.to_string(), nontriv);
        }
        None => {
            // i64::MIN % -1 style overflow: the answer is a representable bool
            if T::MACHINE { known_panic(s, T::TAG, "divides", &inp, "divides"); }
            else { s.oracle(false, "the implementation panicked on operands with a defined result", &inp, "divides"); }
        }
    }
}

fn int_unary<T: MInt>(s: &mut Sink, ab: &BigInt)
where for<'x> &'x T: IntOps<T> {
    let Some(a) = T::from_big(ab) else { return };
    let ring = format!("Z.{}", T::TAG);
    let inp = format!("{} a={}", ring, ab);
    let nontriv = !ab.is_zero();
    s.count(&format!("unary.{}", ring));
    let known = |s: &mut Sink, op: &str| {
        if T::MACHINE { known_panic(s, T::TAG, op, &inp, op); }
        else { s.oracle(false, "the implementation panicked on operands with a defined result", &inp, op); }
    };
    let iu = guard(|| a.is_unit());
    let iv = guard(|| a.inv());
    match (&iu, &iv) {
        (Some(u), Some(v)) => {
            s.oracle(*u == v.is_some(), "is_unit iff an inverse is returned", &inp, &format!("is_unit={} inv={:?}", u, v));
            if let Some(v) = v { s.oracle((ab * v.big()).is_one(), "a * inv(a) = 1", &inp, &format!("inv={}", v.big())); }
            s.oracle(*u == ab.abs().is_one(), "is_unit iff a is invertible in the ring", &inp, &u.to_string());
            s.case(&format!("{} unit {}", ring, ab), &u.to_string(), nontriv);
            s.case(&format!("{} inv {}", ring, ab), &match v { Some(v) => v.txt(), None => "none".into() }, nontriv);
        }
        _ => known(s, "is_unit/inv"),
    }
    let nu = guard(|| a.normalizing_unit());
    match &nu {
        Some(u) => {
            s.oracle(u.big().abs().is_one(), "the normalising unit is a unit", &inp, &u.txt());
            s.case(&format!("{} nu {}", ring, ab), &u.txt(), nontriv);
        }
        None => known(s, "normalizing_unit"),
    }
    // normalized: idempotent, constant on associates (units of Z: 1, -1)
    let mabs = ab.abs();
    if T::from_big(&mabs).is_none() { s.count("skipped.result-unrepresentable"); return; }
    let n = guard(|| a.normalized());
    match &n {
        Some(n) => {
            if let Some(u) = &nu { s.oracle(n.big() == ab * u.big(), "normalized(a) = a * normalizing_unit(a)", &inp, &n.txt()); }
            let nn = guard(|| n.normalized());
            s.oracle(nn.as_ref() == Some(n), "multiplying by the normalising unit is idempotent", &inp, &format!("{} -> {:?}", n.txt(), nn));
            for e in [1, -1] {
                let Some(ae) = T::from_big(&(ab * e)) else { continue };
                let ne = guard(|| ae.normalized());
                s.oracle(ne.as_ref() == Some(n), "normalisation is constant on associates", &inp, &format!("unit {}: {:?} vs {}", e, ne, n.txt()));
            }
            s.case(&format!("{} norm {}", ring, ab), &n.txt(), nontriv);
        }
        None => known(s, "normalized"),
    }
}

/// `gcd`, `gcdx`, `lcm`, `gcd` with swapped arguments of the real code, on a helper thread with a time limit:
/// a broken Euclidean division makes the generic loops spin forever. `None` = no answer within 5 s
/// (the ring is then marked as hung and its remaining gcd cases are skipped; the thread is leaked).
type Gcds<R> = (Option<R>, Option<(R, R, R)>, Option<R>, Option<R>);
static HUNG: std::sync::Mutex<Vec<String>> = std::sync::Mutex::new(Vec::new());
fn timed_gcds<R>(s: &mut Sink, ring: &str, inp: &str, a: &R, b: &R) -> Option<Gcds<R>>
where R: EucRing + Send + 'static, for<'x> &'x R: EucRingOps<R> {
    if HUNG.lock().unwrap().iter().any(|r| r == ring) { s.count("skipped.gcd-after-hang"); return None }
    let (a2, b2) = (a.clone(), b.clone());
    // (private variant of `yv::guard_timeout` with a small stack: the spawn is on the hot path)
    let (tx, rx) = std::sync::mpsc::channel();
    std::thread::Builder::new().stack_size(1 << 20).spawn(move || {
        let t = (guard(|| R::gcd(&a2, &b2)), guard(|| R::gcdx(&a2, &b2)), guard(|| R::lcm(&a2, &b2)), guard(|| R::gcd(&b2, &a2)));
        let _ = tx.send(t);
    }).unwrap();
    match rx.recv_timeout(std::time::Duration::from_secs(5)).ok() {
        Some(t) => Some(t),
        _ => {
            HUNG.lock().unwrap().push(ring.to_string());
            s.oracle(false, "gcd/gcdx/lcm terminate (no answer within 5 s)", inp, "timeout");
            None
        }
    }
}

// ------------------------------------------------------------------------------------------------
// quadratic integers (D = -1, -3); reference arithmetic on pairs of BigInt
// ------------------------------------------------------------------------------------------------

type P = (BigInt, BigInt);
fn pz(x: &P) -> bool { x.0.is_zero() && x.1.is_zero() }
fn qmul(d: i32, x: &P, y: &P) -> P {
    let (a, b) = x; let (c, e) = y;
    if d == -1 { (a * c - b * e, a * e + b * c) } else { (a * c - b * e, a * e + b * c + b * e) }
}
fn qadd(x: &P, y: &P) -> P { (&x.0 + &y.0, &x.1 + &y.1) }
fn qsub(x: &P, y: &P) -> P { (&x.0 - &y.0, &x.1 - &y.1) }
fn qconj(d: i32, x: &P) -> P { if d == -1 { (x.0.clone(), -&x.1) } else { (&x.0 + &x.1, -&x.1) } }
fn qnorm(d: i32, x: &P) -> BigInt { if d == -1 { &x.0 * &x.0 + &x.1 * &x.1 } else { &x.0 * &x.0 + &x.0 * &x.1 + &x.1 * &x.1 } }
fn qdivides(d: i32, g: &P, x: &P) -> bool {
    if pz(g) { return pz(x) }
    let n = qnorm(d, g);
    let w = qmul(d, x, &qconj(d, g));
    (w.0 % &n).is_zero() && (w.1 % &n).is_zero()
}
fn qunits(d: i32) -> Vec<P> {
    let v: &[(i32, i32)] = if d == -1 { &[(1, 0), (0, 1), (-1, 0), (0, -1)] } else { &[(1, 0), (0, 1), (-1, 1), (-1, 0), (0, -1), (1, -1)] };
    v.iter().map(|&(a, b)| (BigInt::from(a), BigInt::from(b))).collect()
}
fn ptxt(x: &P) -> String { format!("{},{}", x.0, x.1) }

struct QuadCtx<'a, R> {
    d: i32,
    ring: String,
    mk: &'a dyn Fn(&P) -> Option<R>,
    un: &'a dyn Fn(&R) -> P,
    /// machine coefficient types: operands are kept to |coordinate| < 2^lim so that no intermediate overflows
    lim: Option<u32>,
}

fn quad_pair<R>(s: &mut Sink, c: &QuadCtx<R>, ap: &P, bp: &P)
where R: EucRing + DivRound + Debug + Send + 'static, for<'x> &'x R: EucRingOps<R> {
    let (Some(a), Some(b)) = ((c.mk)(ap), (c.mk)(bp)) else { return };
    let d = c.d;
    let ring = &c.ring;
    let inp = format!("{} a={} b={}", ring, ptxt(ap), ptxt(bp));
    let nontriv = qnorm(d, ap) > BigInt::one() && qnorm(d, bp) > BigInt::one();
    s.count(&format!("pairs.{}", ring));
    let bnz = !pz(bp);
    let un = |x: &R| (c.un)(x);
    let rt = |x: &Option<R>| match x { Some(v) => ptxt(&un(v)), None => "panic".into() };
    let unexpected = |s: &mut Sink, op: &str| s.oracle(false, "the implementation panicked on operands with a defined result", &inp, op);

    let q = guard(|| &a / &b);
    let r = guard(|| &a % &b);
    let dr = guard(|| a.div_round(&b));
    if bnz && (q.is_none() || r.is_none() || dr.is_none()) { unexpected(s, "div/rem/div_round"); }
    else {
        if !bnz { s.count("outcome.panic.div-by-zero"); }
        s.case(&format!("{} div {} {}", ring, ptxt(ap), ptxt(bp)), &rt(&q), nontriv);
        s.case(&format!("{} rem {} {}", ring, ptxt(ap), ptxt(bp)), &rt(&r), nontriv);
        s.case(&format!("{} dr {} {}", ring, ptxt(ap), ptxt(bp)), &rt(&dr), nontriv);
    }
    if let (Some(q), Some(r), true) = (&q, &r, bnz) {
        let (qp, rp) = (un(q), un(r));
        s.oracle(ap == &qadd(&qmul(d, &qp, bp), &rp), "a = (a/b)*b + (a%b)", &inp, &format!("q={} r={}", ptxt(&qp), ptxt(&rp)));
        s.oracle(qnorm(d, &rp) < qnorm(d, bp), "remainder is zero or of strictly smaller norm than b", &inp, &format!("r={} N(r)={} N(b)={}", ptxt(&rp), qnorm(d, &rp), qnorm(d, bp)));
    }
    if let (Some(dr), true) = (&dr, bnz) {
        let qp = un(dr);
        let n = qnorm(d, bp);
        let w = qmul(d, ap, &qconj(d, bp));
        if d == -1 {
            // nearest Gaussian integer: both coordinates of a*conj(b)/N(b) exactly rounded
            let e0 = (&w.0 - &qp.0 * &n).abs() * 2;
            let e1 = (&w.1 - &qp.1 * &n).abs() * 2;
            s.oracle(e0 <= n && e1 <= n, "div_round returns the exactly rounded quotient (both coordinates)", &inp, &format!("q={}", ptxt(&qp)));
        } else {
            let rp = qsub(ap, &qmul(d, bp, &qp));
            s.oracle(qnorm(d, &rp) < n, "div_round returns a quotient with N(a - q b) < N(b)", &inp, &format!("q={}", ptxt(&qp)));
        }
    }

    let both_zero = pz(ap) && pz(bp);
    s.count(&format!("gcd-path.{}", if both_zero { "both-zero" } else if !pz(ap) && qdivides(d, ap, bp) { "early-x-divides-y" } else if !pz(bp) && qdivides(d, bp, ap) { "early-y-divides-x" } else { "loop" }));
    let Some((g, gx, l, g2)) = timed_gcds(s, ring, &inp, &a, &b) else { return };
    if g.is_none() || gx.is_none() || (l.is_none() && !both_zero) { unexpected(s, "gcd/gcdx/lcm"); }
    s.case(&format!("{} gcd {} {}", ring, ptxt(ap), ptxt(bp)), &rt(&g), nontriv);
    s.case(&format!("{} gcdx {} {}", ring, ptxt(ap), ptxt(bp)),
        &match &gx { Some((d0, x, y)) => format!("{} {} {}", ptxt(&un(d0)), ptxt(&un(x)), ptxt(&un(y))), None => "panic".into() }, nontriv);
    s.case(&format!("{} lcm {} {}", ring, ptxt(ap), ptxt(bp)), &rt(&l), nontriv);
    if let Some(g) = &g {
        let gp = un(g);
        s.oracle(qdivides(d, &gp, ap) && qdivides(d, &gp, bp), "gcd(a,b) divides a and b", &inp, &format!("g={}", ptxt(&gp)));
        let n = guard(|| g.normalized());
        s.oracle(n.as_ref() == Some(g), "gcd(a,b) is the normalised associate (normalized(g) = g)", &inp, &format!("g={}", ptxt(&gp)));
        if let Some(g2) = &g2 {
            s.oracle(g2 == g, "gcd(a,b) = gcd(b,a)", &inp, &format!("{} vs {}", ptxt(&gp), ptxt(&un(g2))));
        }
    }
    if let Some((d0, x, y)) = &gx {
        let lhs = qadd(&qmul(d, &un(x), ap), &qmul(d, &un(y), bp));
        s.oracle(lhs == un(d0), "gcd = s*a + t*b with the returned s, t", &inp, &format!("d={} s={} t={}", ptxt(&un(d0)), ptxt(&un(x)), ptxt(&un(y))));
        if let Some(g) = &g { s.oracle(g == d0, "gcdx returns the gcd", &inp, &format!("gcd={} gcdx.0={}", ptxt(&un(g)), ptxt(&un(d0)))); }
    }
    if let (Some(l), Some(g), false) = (&l, &g, both_zero) {
        let lg = qmul(d, &un(l), &un(g));
        let ab = qmul(d, ap, bp);
        let assoc = qunits(d).iter().any(|u| qmul(d, &lg, u) == ab);
        s.oracle(assoc, "lcm*gcd is an associate of a*b", &inp, &format!("l={} g={}", ptxt(&un(l)), ptxt(&un(g))));
    }
    if let Some(v) = guard(|| a.divides(&b)) {
        s.oracle(v == (!pz(ap) && qdivides(d, ap, bp)), "a.divides(b) iff a != 0 and a | b", &inp, &v.to_string());
        s.case(&format!("{} divides {} {}", ring, ptxt(ap), ptxt(bp)), &v.to_string(), nontriv);
    } else { unexpected(s, "divides"); }
}

fn quad_unary<R>(s: &mut Sink, c: &QuadCtx<R>, ap: &P)
where R: EucRing + DivRound + Debug + Send + 'static, for<'x> &'x R: EucRingOps<R> {
    let Some(a) = (c.mk)(ap) else { return };
    let d = c.d;
    let ring = &c.ring;
    let inp = format!("{} a={}", ring, ptxt(ap));
    let nontriv = !pz(ap);
    let un = |x: &R| (c.un)(x);
    s.count(&format!("unary.{}", ring));
    let one: P = (BigInt::one(), BigInt::zero());
    let (iu, iv) = (a.is_unit(), a.inv());
    s.oracle(iu == iv.is_some(), "is_unit iff an inverse is returned", &inp, &format!("is_unit={} inv={:?}", iu, iv));
    if let Some(v) = &iv { s.oracle(qmul(d, ap, &un(v)) == one, "a * inv(a) = 1", &inp, &ptxt(&un(v))); }
    s.oracle(iu == qnorm(d, ap).is_one(), "is_unit iff a is invertible in the ring", &inp, &iu.to_string());
    s.case(&format!("{} unit {}", ring, ptxt(ap)), &iu.to_string(), nontriv);
    s.case(&format!("{} inv {}", ring, ptxt(ap)), &match &iv { Some(v) => ptxt(&un(v)), None => "none".into() }, nontriv);
    let u = a.normalizing_unit();
    s.oracle(qnorm(d, &un(&u)).is_one() && u.is_unit(), "the normalising unit is a unit", &inp, &ptxt(&un(&u)));
    s.case(&format!("{} nu {}", ring, ptxt(ap)), &ptxt(&un(&u)), nontriv);
    let n = a.normalized();
    s.oracle(un(&n) == qmul(d, ap, &un(&u)), "normalized(a) = a * normalizing_unit(a)", &inp, &ptxt(&un(&n)));
    s.oracle(n.normalized() == n, "multiplying by the normalising unit is idempotent", &inp, &ptxt(&un(&n)));
    for e in qunits(d) {
        let Some(ae) = (c.mk)(&qmul(d, ap, &e)) else { continue };
        let ne = ae.normalized();
        s.oracle(ne == n, "normalisation is constant on associates", &inp, &format!("unit {}: {} vs {}", ptxt(&e), ptxt(&un(&ne)), ptxt(&un(&n))));
    }
    s.case(&format!("{} norm {}", ring, ptxt(ap)), &ptxt(&un(&n)), nontriv);
}

// ------------------------------------------------------------------------------------------------
// fields, polynomials: the oracle uses the ring's own + * == (verified elsewhere) on small operands
// ------------------------------------------------------------------------------------------------

struct GenCtx<'a, R> {
    ring: String,
    txt: &'a dyn Fn(&R) -> String,
    /// Euclidean size: 0 for zero
    enorm: &'a dyn Fn(&R) -> u64,
    units: Vec<R>,
    /// coefficients are `Ratio<i64>`: a panic on well-defined operands is counted as a suspected overflow
    overflow_ok: bool,
}

fn exact_div<R>(x: &R, y: &R) -> bool
where R: EucRing, for<'x> &'x R: EucRingOps<R> {
    if y.is_zero() { return x.is_zero() }
    let q = x / y;
    &(&q * y) == x
}

fn gen_pair<R>(s: &mut Sink, c: &GenCtx<R>, a: &R, b: &R)
where R: EucRing + Debug + Send + 'static, for<'x> &'x R: EucRingOps<R> {
    let ring = &c.ring;
    let t = |x: &R| (c.txt)(x);
    let (at, bt) = (t(a), t(b));
    let inp = format!("{} a={} b={}", ring, at, bt);
    let nontriv = !a.is_zero() && !b.is_zero() && !a.is_unit() && !b.is_unit();
    s.count(&format!("pairs.{}", ring));
    let bnz = !b.is_zero();
    let rt = |x: &Option<R>| match x { Some(v) => t(v), None => "panic".into() };
    let unexpected = |s: &mut Sink, op: &str| {
        if c.overflow_ok { s.count("skipped.suspected-i64-overflow"); }
        else { s.oracle(false, "the implementation panicked on operands with a defined result", &inp, op); }
    };
    let q = guard(|| a / b);
    let r = guard(|| a % b);
    if bnz && (q.is_none() || r.is_none()) { unexpected(s, "div/rem"); }
    else {
        if !bnz { s.count("outcome.panic.div-by-zero"); }
        s.case(&format!("{} div {} {}", ring, at, bt), &rt(&q), nontriv);
        s.case(&format!("{} rem {} {}", ring, at, bt), &rt(&r), nontriv);
    }
    if let (Some(q), Some(r), true) = (&q, &r, bnz) {
        let ok = guard(|| a == &(&(q * b) + r));
        match ok {
            Some(ok) => s.oracle(ok, "a = (a/b)*b + (a%b)", &inp, &format!("q={} r={}", t(q), t(r))),
            None => unexpected(s, "q*b+r"),
        }
        s.oracle((c.enorm)(r) < (c.enorm)(b), "remainder is zero or of strictly smaller norm than b", &inp, &format!("r={}", t(r)));
    }
    let both_zero = a.is_zero() && b.is_zero();
    if let Some(p) = guard(|| if both_zero { "both-zero" } else if a.divides(b) { "early-x-divides-y" } else if b.divides(a) { "early-y-divides-x" } else { "loop" }) {
        s.count(&format!("gcd-path.{}", p));
    }
    let Some((g, gx, l, g2)) = timed_gcds(s, ring, &inp, a, b) else { return };
    if g.is_none() || gx.is_none() || (l.is_none() && !both_zero) {
        unexpected(s, "gcd/gcdx/lcm");
        if c.overflow_ok { return }
    }
    s.case(&format!("{} gcd {} {}", ring, at, bt), &rt(&g), nontriv);
    s.case(&format!("{} gcdx {} {}", ring, at, bt),
        &match &gx { Some((d0, x, y)) => format!("{} {} {}", t(d0), t(x), t(y)), None => "panic".into() }, nontriv);
    s.case(&format!("{} lcm {} {}", ring, at, bt), &rt(&l), nontriv);
    let res = guard(|| {
        let mut out: Vec<(bool, &'static str, String)> = vec![];
        if let Some(g) = &g {
            out.push((exact_div(a, g) && exact_div(b, g), "gcd(a,b) divides a and b", format!("g={}", t(g))));
            out.push((&g.normalized() == g, "gcd(a,b) is the normalised associate (normalized(g) = g)", format!("g={}", t(g))));
            if let Some(g2) = &g2 { out.push((g2 == g, "gcd(a,b) = gcd(b,a)", format!("{} vs {}", t(g), t(g2)))); }
        }
        if let Some((d0, x, y)) = &gx {
            let lhs = &(x * a) + &(y * b);
            out.push((&lhs == d0, "gcd = s*a + t*b with the returned s, t", format!("d={} s={} t={}", t(d0), t(x), t(y))));
            if let Some(g) = &g { out.push((g == d0, "gcdx returns the gcd", format!("gcd={} gcdx.0={}", t(g), t(d0)))); }
        }
        if let (Some(l), Some(g), false) = (&l, &g, both_zero) {
            let lg = l * g;
            let ab = a * b;
            let assoc = if ab.is_zero() { lg.is_zero() } else { !lg.is_zero() && exact_div(&lg, &ab) && exact_div(&ab, &lg) };
            out.push((assoc, "lcm*gcd is an associate of a*b", format!("l={} g={}", t(l), t(g))));
        }
        out
    });
    match res {
        Some(v) => for (ok, cl, det) in v { s.oracle(ok, cl, &inp, &det); },
        None => unexpected(s, "oracle arithmetic"),
    }
    if let Some(v) = guard(|| a.divides(b)) {
        s.case(&format!("{} divides {} {}", ring, at, bt), &v.to_string(), nontriv);
        if let Some(e) = guard(|| !a.is_zero() && exact_div(b, a)) {
            s.oracle(v == e, "a.divides(b) iff a != 0 and a | b", &inp, &v.to_string());
        }
    } else { unexpected(s, "divides"); }
}

fn gen_unary<R>(s: &mut Sink, c: &GenCtx<R>, a: &R)
where R: EucRing + Debug + Send + 'static, for<'x> &'x R: EucRingOps<R> {
    let ring = &c.ring;
    let t = |x: &R| (c.txt)(x);
    let at = t(a);
    let inp = format!("{} a={}", ring, at);
    let nontriv = !a.is_zero();
    s.count(&format!("unary.{}", ring));
    let res = guard(|| {
        let mut out: Vec<(bool, &'static str, String)> = vec![];
        let mut cases: Vec<(String, String)> = vec![];
        let (iu, iv) = (a.is_unit(), a.inv());
        out.push((iu == iv.is_some(), "is_unit iff an inverse is returned", format!("is_unit={} inv={:?}", iu, iv)));
        if let Some(v) = &iv { out.push(((a * v).is_one() && (a * v) == R::one(), "a * inv(a) = 1", t(v))); }
        cases.push((format!("{} unit {}", ring, at), iu.to_string()));
        cases.push((format!("{} inv {}", ring, at), match &iv { Some(v) => t(v), None => "none".into() }));
        let u = a.normalizing_unit();
        let ui = u.inv();
        out.push((u.is_unit() && ui.as_ref().map(|w| (&u * w) == R::one()).unwrap_or(false), "the normalising unit is a unit", t(&u)));
        cases.push((format!("{} nu {}", ring, at), t(&u)));
        let n = a.normalized();
        out.push((n == a * &u, "normalized(a) = a * normalizing_unit(a)", t(&n)));
        out.push((n.normalized() == n, "multiplying by the normalising unit is idempotent", t(&n)));
        for e in &c.units {
            let ne = (a * e).normalized();
            out.push((ne == n, "normalisation is constant on associates", format!("unit {}: {} vs {}", t(e), t(&ne), t(&n))));
        }
        cases.push((format!("{} norm {}", ring, at), t(&n)));
        (out, cases)
    });
    match res {
        Some((out, cases)) => {
            for (ok, cl, det) in out { s.oracle(ok, cl, &inp, &det); }
            for (rq, rp) in cases { s.case(&rq, &rp, nontriv); }
        }
        None => {
            if c.overflow_ok { s.count("skipped.suspected-i64-overflow"); }
            else { s.oracle(false, "the implementation panicked on operands with a defined result", &inp, "unary ops"); }
        }
    }
}

// ------------------------------------------------------------------------------------------------
// value generators
// ------------------------------------------------------------------------------------------------

fn bi(x: i64) -> BigInt { BigInt::from(x) }
fn pow2(e: u32) -> BigInt { BigInt::one() << e }
fn pow10(e: u32) -> BigInt { num_traits::pow(BigInt::from(10), e as usize) }

fn rand_big(r: &mut Rng, bits: u32) -> BigInt {
    let mut x = BigInt::zero();
    let mut left = bits;
    while left > 0 {
        let k = left.min(32);
        x = (x << k) + BigInt::from(r.next() & ((1u64 << k) - 1));
        left -= k;
    }
    if r.bool() { -x } else { x }
}

fn int_values(r: &mut Rng, thorough: bool) -> Vec<BigInt> {
    let mut v: Vec<BigInt> = [0i64, 1, -1, 2, -2, 3, -3, 5, -7, 12, -13, 46, 240].iter().map(|&x| BigInt::from(x)).collect();
    let es: &[u32] = if thorough { &[15, 31, 32, 53, 62, 63, 64, 126, 127] } else { &[31, 53, 62, 63, 127] };
    for &e in es {
        let ds: &[i32] = if thorough || e == 53 { &[-2, -1, 0, 1, 2] } else { &[-1, 0, 1] };
        for &d in ds {
            v.push(pow2(e) + d);
            if thorough || d >= 0 { v.push(-(pow2(e) + d)); }
        }
    }
    v.push((pow2(53) + 1) * 3);
    v.push(pow10(30)); v.push(pow10(30) + 1); v.push(-pow10(30));
    v.push(pow10(300)); v.push(pow10(300) + bi(7)); v.push(-(pow10(300) + bi(7)));
    if thorough { v.push(pow10(300) * 3 + 1); v.push(pow10(18)); v.push(-(pow10(18) * bi(9))); v.push(pow10(400)); }
    let n = if thorough { 70 } else { 8 };
    for i in 0..n {
        let bits = [8u32, 20, 31, 40, 53, 62, 64, 100, 126, 200, 1000][(r.below(11)) as usize];
        let _ = i;
        v.push(rand_big(r, bits));
    }
    v.sort(); v.dedup();
    v
}

/// pairs (a, b) built as a = k*b + r with r around 0, ±|b|/2, ±(|b|-1): exercises every rounding branch incl. ties
fn tie_pairs(r: &mut Rng, n: usize) -> Vec<(BigInt, BigInt)> {
    let mut out = vec![];
    for _ in 0..n {
        let bits = [2u32, 3, 5, 16, 31, 53, 62, 100, 300][r.below(9) as usize];
        let mut b = rand_big(r, bits);
        if b.is_zero() { b = BigInt::from(2); }
        if r.chance(1, 3) { b = &b * 2; } // even divisor: exact ties exist
        let kb = [0u32, 1, 3, 30, 60, 200][r.below(6) as usize];
        let k = rand_big(r, kb);
        let h: BigInt = b.abs() / 2;
        let rs = [BigInt::zero(), BigInt::one(), &h - 1, h.clone(), &h + 1, b.abs() - 1];
        let rr = rs[r.below(6) as usize].clone();
        let rr = if r.bool() { -rr } else { rr };
        out.push((&k * &b + rr, b));
    }
    out
}

fn quad_values(r: &mut Rng, lim_bits: u32, big: bool, thorough: bool) -> Vec<P> {
    let mut v: Vec<P> = vec![];
    let small: &[(i64, i64)] = &[(0, 0), (1, 0), (0, 1), (-1, 0), (0, -1), (1, -1), (-1, 1), (1, 1), (-1, -1), (2, 0), (-2, 0), (0, 2), (0, -3), (4, 0),
        (3, 0), (1, 2), (2, 1), (2, -1), (-3, 2), (3, 2), (5, 0), (7, 9), (49, -58), (11, 3), (1, 8), (-4, 7), (6, -6), (-5, -5), (0, 7), (13, 0), (-2, 3)];
    for &(a, b) in small { v.push((BigInt::from(a), BigInt::from(b))); }
    let m = pow2(lim_bits);
    for (a, b) in [(&m - bi(1), BigInt::zero()), (BigInt::zero(), -(&m - bi(1))), (&m - bi(1), &m - bi(2)), (-(&m - bi(3)), &m - bi(1)), (pow2(lim_bits / 2) + bi(1), -pow2(lim_bits / 2))] {
        v.push((a, b));
    }
    if big {
        v.push((pow2(53) + 1, pow2(53) - 1)); v.push(((pow2(53) + 1) * 3, BigInt::from(3)));
        v.push((pow10(30), pow10(30) + 1)); v.push((-pow10(30) * 7, pow10(15)));
        v.push((pow10(300), BigInt::from(-7))); v.push((pow10(300) + 1, pow10(299) * 3));
        v.push((pow2(62) + 1, -pow2(62))); v.push((pow2(31), pow2(31) + 1));
    }
    let n = if thorough { 120 } else { 10 };
    for _ in 0..n {
        let bits = if big { [4u32, 10, 30, 53, 64, 100, 300][r.below(7) as usize] } else { 1 + r.below(lim_bits as u64) as u32 };
        let bits2 = if r.chance(1, 4) { 1 } else { bits };
        let (a, b) = (rand_big(r, bits.min(if big { 10000 } else { lim_bits })), rand_big(r, bits2.min(if big { 10000 } else { lim_bits })));
        v.push(if r.bool() { (a, b) } else { (b, a) });
    }
    v.sort(); v.dedup();
    v
}

type QI = Ratio<i64>;
type QB = Ratio<BigInt>;

fn ratio_small(r: &mut Rng, n: usize) -> Vec<(i64, i64)> {
    let mut v: Vec<(i64, i64)> = vec![(0, 1), (1, 1), (-1, 1), (2, 1), (1, 2), (-1, 2), (2, 3), (-3, 2), (5, 1), (-5, 7), (7, 3), (1, 3), (-4, 1), (3, 4), (6, 5)];
    for _ in 0..n { v.push((r.range(-30, 30), r.range(1, 12))); }
    v
}

// ------------------------------------------------------------------------------------------------

fn run_ints<T: MInt>(s: &mut Sink, vals: &[BigInt], ties: &[(BigInt, BigInt)])
where for<'x> &'x T: IntOps<T> {
    for a in vals {
        guarded_case(s, &format!("Z.{} unary {}", T::TAG, a), |s| int_unary::<T>(s, a));
        for b in vals {
            guarded_case(s, &format!("Z.{} pair {} {}", T::TAG, a, b), |s| int_pair::<T>(s, a, b));
        }
    }
    for (a, b) in ties {
        guarded_case(s, &format!("Z.{} pair {} {}", T::TAG, a, b), |s| int_pair::<T>(s, a, b));
    }
}

fn run_quad<R>(s: &mut Sink, c: &QuadCtx<R>, vals: &[P], max_pairs: usize, r: &mut Rng)
where R: EucRing + DivRound + Debug + Send + 'static, for<'x> &'x R: EucRingOps<R> {
    for a in vals { guarded_case(s, &format!("{} unary {}", c.ring, ptxt(a)), |s| quad_unary(s, c, a)); }
    let all = vals.len() * vals.len();
    for a in vals {
        for b in vals {
            if all > max_pairs && !r.chance(max_pairs as u64, all as u64) { continue }
            guarded_case(s, &format!("{} pair {} {}", c.ring, ptxt(a), ptxt(b)), |s| quad_pair(s, c, a, b));
        }
    }
    // multiples and common factors: a = x*h, b = y*h (early-return paths and non-trivial gcds)
    let n = (max_pairs / 4).max(10);
    // factors: for machine coefficient types only values whose products stay below the limit
    let facs: Vec<P> = match c.lim {
        Some(l) => { let m = pow2(l / 2 - 1); vals.iter().filter(|v| v.0.abs() < m && v.1.abs() < m).cloned().collect() }
        None => vals.to_vec(),
    };
    let smalls: Vec<P> = vals.iter().filter(|v| v.0.abs() < bi(60) && v.1.abs() < bi(60)).cloned().collect();
    for _ in 0..n {
        let hs = r.bool();
        let (x, y, h) = (r.pick(&smalls).clone(), r.pick(&facs).clone(), r.pick(if hs { &smalls } else { &facs }).clone());
        let (a, b) = (qmul(c.d, &x, &h), qmul(c.d, &y, &h));
        let (a, b) = match r.below(4) { 0 => (h.clone(), b), 1 => (a, h.clone()), _ => (a, b) };
        if let Some(l) = c.lim {
            let m = pow2(l);
            if [&a.0, &a.1, &b.0, &b.1].iter().any(|x| x.abs() >= m) { s.count("skipped.operand-beyond-machine-limit"); continue }
        }
        guarded_case(s, &format!("{} pair {} {}", c.ring, ptxt(&a), ptxt(&b)), |s| quad_pair(s, c, &a, &b));
    }
}

fn run_gen<R>(s: &mut Sink, c: &GenCtx<R>, vals: &[R], max_pairs: usize, r: &mut Rng)
where R: EucRing + Debug + Send + 'static, for<'x> &'x R: EucRingOps<R> {
    for a in vals { guarded_case(s, &format!("{} unary", c.ring), |s| gen_unary(s, c, a)); }
    let all = vals.len() * vals.len();
    for a in vals {
        for b in vals {
            if all > max_pairs && !r.chance(max_pairs as u64, all as u64) { continue }
            guarded_case(s, &format!("{} pair", c.ring), |s| gen_pair(s, c, a, b));
        }
    }
}

fn ff_all<const Q: i32>(s: &mut Sink, r: &mut Rng) {
    let vals: Vec<FF<Q>> = (0..Q).map(FF::<Q>::new).collect();
    let c = GenCtx::<FF<Q>> {
        ring: format!("F{}", Q), txt: &|x| x.txt(), enorm: &|x| if x.is_zero() { 0 } else { 1 },
        units: vals[1..].to_vec(), overflow_ok: false,
    };
    run_gen(s, &c, &vals, usize::MAX, r);
}

fn mk_poly<R>(cs: &[R]) -> Poly<'x', R>
where R: Ring, for<'x> &'x R: yui::RingOps<R> {
    Poly::from_iter(cs.iter().enumerate().map(|(i, c)| (Var::from(i), c.clone())))
}
fn poly_txt<R>(f: &Poly<'x', R>, t: &dyn Fn(&R) -> String) -> String
where R: Ring, for<'x> &'x R: yui::RingOps<R> {
    if f.is_zero() { return "[]".into() }
    let d = f.lead_deg();
    format!("[{}]", (0..=d).map(|i| t(f.coeff_for(i))).collect::<Vec<_>>().join(";"))
}

/// coefficient lists (as small rationals num/den) of the polynomial test values
fn poly_coeff_lists(r: &mut Rng, n: usize, maxdeg: usize, modp: Option<i64>) -> Vec<Vec<(i64, i64)>> {
    let mut v: Vec<Vec<(i64, i64)>> = vec![
        vec![], vec![(1, 1)], vec![(-1, 1)], vec![(2, 1)], vec![(1, 2)], vec![(0, 1), (1, 1)], vec![(0, 1), (2, 1)], vec![(1, 1), (1, 1)], vec![(-1, 1), (1, 1)],
        vec![(-1, 1), (0, 1), (1, 1)], vec![(1, 1), (2, 1), (1, 1)], vec![(1, 1), (0, 1), (1, 1)], vec![(0, 1), (0, 1), (1, 1)], vec![(0, 1), (0, 1), (0, 1), (3, 1)],
        vec![(2, 1), (-3, 1), (1, 1)], vec![(1, 1), (0, 1), (0, 1), (1, 1)], vec![(-2, 3), (1, 2), (0, 1), (2, 1)], vec![(1, 1), (1, 1), (1, 1), (1, 1), (1, 1)],
    ];
    for _ in 0..n {
        let d = r.below(maxdeg as u64 + 1) as usize;
        let mut f: Vec<(i64, i64)> = (0..=d).map(|_| {
            if r.chance(1, 4) { (0, 1) } else if modp.is_some() { (r.range(0, 6), 1) } else { (r.range(-3, 3), if r.chance(1, 4) { r.range(2, 3) } else { 1 }) }
        }).collect();
        if r.chance(1, 2) { let l = f.len(); f[l - 1] = (if r.bool() { 1 } else { -2 }, 1); }
        v.push(f);
    }
    v
}

fn poly_mul_lists(a: &[(i64, i64)], b: &[(i64, i64)]) -> Vec<(i64, i64)> {
    // product of coefficient lists over Q (small numbers; reduced lazily)
    if a.is_empty() || b.is_empty() { return vec![] }
    fn g(a: i64, b: i64) -> i64 { if b == 0 { a.abs() } else { g(b, a % b) } }
    let mut out = vec![(0i64, 1i64); a.len() + b.len() - 1];
    for (i, x) in a.iter().enumerate() { for (j, y) in b.iter().enumerate() {
        let (n, d) = (x.0 * y.0, x.1 * y.1);
        let (pn, pd) = out[i + j];
        let (mut nn, mut dd) = (pn * d + n * pd, pd * d);
        let k = g(nn, dd).max(1); nn /= k; dd /= k;
        out[i + j] = (nn, dd);
    } }
    out
}

fn main() {
    quiet_panics();
    let args = Args::parse();
    let mut s = Sink::new(&args, "binary: both operands non-zero non-units; unary: operand non-zero");
    let mut r = Rng::new(args.seed);
    let th = args.thorough();

    // ---- corpus: the witnesses of the fixed defects F2 (f64 rounding) and F4 (un-normalised early returns)
    {
        let a: BigInt = (pow2(53) + bi(1)) * bi(3);
        for (x, y) in [(a.clone(), BigInt::from(3)), (pow10(400), BigInt::from(7)), (BigInt::from(13), BigInt::from(5)), (BigInt::from(-13), BigInt::from(5)),
                       (BigInt::from(5), BigInt::from(2)), (BigInt::from(-5), BigInt::from(2)), (BigInt::from(5), BigInt::from(-2)), (BigInt::from(-7), BigInt::from(-2)),
                       (BigInt::from(240), BigInt::from(46)), (BigInt::from(0), BigInt::from(-24)), (BigInt::zero(), BigInt::zero())] {
            guarded_case(&mut s, "corpus int", |s| int_pair::<BigInt>(s, &x, &y));
            guarded_case(&mut s, "corpus int", |s| int_pair::<i64>(s, &x, &y));
            guarded_case(&mut s, "corpus int", |s| int_pair::<i128>(s, &x, &y));
        }
    }

    // ---- integers
    let vals = int_values(&mut r, th);
    let ties = tie_pairs(&mut r, if th { 60000 } else { 600 });
    s.count_n("int.values", vals.len() as u64);
    run_ints::<BigInt>(&mut s, &vals, &ties);
    run_ints::<i64>(&mut s, &vals, &ties);
    run_ints::<i128>(&mut s, &vals, &ties);
    run_ints::<i32>(&mut s, &vals, &ties);
    {
        // exhaustive small space: all pairs in -12..=12 (-40..=40 in the thorough tier)
        let m = if th { 40 } else { 12 };
        let small: Vec<BigInt> = (-m..=m).map(bi).collect();
        run_ints::<i32>(&mut s, &small, &[]);
        if th { run_ints::<BigInt>(&mut s, &small, &[]); }
        s.count_n("exhaustive.int-small-pairs", (small.len() * small.len()) as u64);
    }

    // ---- quadratic integers
    macro_rules! quad {
        ($t:ty, $d:literal, $fam:literal, $bits:expr, $big:expr, $pairs:expr) => {{
            let mk = |p: &P| -> Option<yui::QuadInt<$t, $d>> { Some(yui::QuadInt::<$t, $d>::new(<$t as MInt>::from_big(&p.0)?, <$t as MInt>::from_big(&p.1)?)) };
            let un = |x: &yui::QuadInt<$t, $d>| -> P { (x.left().big(), x.right().big()) };
            let c = QuadCtx { d: $d, ring: format!("{}.{}", $fam, <$t as MInt>::TAG), mk: &mk, un: &un, lim: if $big { None } else { Some($bits) } };
            let vals = quad_values(&mut r, $bits, $big, th);
            run_quad(&mut s, &c, &vals, $pairs, &mut r);
        }};
    }
    let qp = if th { 60000 } else { 1200 };
    // corpus (F4): gcd(-2, 4) in Z[i]; the tested example 49-58i by 7+9i
    {
        let mk = |p: &P| -> Option<GaussInt<BigInt>> { Some(GaussInt::new(p.0.clone(), p.1.clone())) };
        let un = |x: &GaussInt<BigInt>| -> P { (x.left().clone(), x.right().clone()) };
        let c = QuadCtx { d: -1, ring: "G.big".to_string(), mk: &mk, un: &un, lim: None };
        let p = |a: i64, b: i64| (BigInt::from(a), BigInt::from(b));
        for (a, b) in [(p(-2, 0), p(4, 0)), (p(4, 0), p(-2, 0)), (p(49, -58), p(7, 9)), (p(0, 0), p(0, 0)), (p(0, 0), p(0, -3))] {
            guarded_case(&mut s, "corpus gauss", |s| quad_pair(s, &c, &a, &b));
        }
        let mk = |p: &P| -> Option<EisenInt<BigInt>> { Some(EisenInt::new(p.0.clone(), p.1.clone())) };
        let un = |x: &EisenInt<BigInt>| -> P { (x.left().clone(), x.right().clone()) };
        let c = QuadCtx { d: -3, ring: "E.big".to_string(), mk: &mk, un: &un, lim: None };
        for (a, b) in [(p(-2, 0), p(4, 0)), (p(0, 2), p(4, 0)), (p(49, -58), p(7, 9)), (p(0, 0), p(-1, 1))] {
            guarded_case(&mut s, "corpus eisen", |s| quad_pair(s, &c, &a, &b));
        }
    }
    {
        // exhaustive small space: all pairs with coordinates in -2..=2 (-3..=3 in the thorough tier)
        let m = if th { 3 } else { 2 };
        let mut small: Vec<P> = vec![];
        for a in -m..=m { for b in -m..=m { small.push((bi(a), bi(b))); } }
        macro_rules! quad_small {
            ($t:ty, $d:literal, $fam:literal) => {{
                let mk = |p: &P| -> Option<yui::QuadInt<$t, $d>> { Some(yui::QuadInt::<$t, $d>::new(<$t as MInt>::from_big(&p.0)?, <$t as MInt>::from_big(&p.1)?)) };
                let un = |x: &yui::QuadInt<$t, $d>| -> P { (x.left().big(), x.right().big()) };
                let c = QuadCtx { d: $d, ring: format!("{}.{}", $fam, <$t as MInt>::TAG), mk: &mk, un: &un, lim: None };
                for a in &small { for b in &small { guarded_case(&mut s, "small quad pair", |s| quad_pair(s, &c, a, b)); } }
            }};
        }
        quad_small!(i64, -1, "G");
        quad_small!(i64, -3, "E");
        if th { quad_small!(BigInt, -1, "G"); quad_small!(BigInt, -3, "E"); }
        s.count_n("exhaustive.quad-small-pairs", (small.len() * small.len()) as u64);
    }
    quad!(BigInt, -1, "G", 29, true, qp);
    quad!(BigInt, -3, "E", 29, true, qp);
    quad!(i64, -1, "G", 29, false, qp);
    quad!(i64, -3, "E", 29, false, qp);
    quad!(i32, -1, "G", 13, false, qp / 4);
    quad!(i32, -3, "E", 13, false, qp / 4);
    quad!(i128, -1, "G", 60, false, qp / 4);
    quad!(i128, -3, "E", 60, false, qp / 4);

    // ---- Q
    {
        let rs = ratio_small(&mut r, if th { 60 } else { 20 });
        let vi: Vec<QI> = rs.iter().map(|&(n, d)| QI::new(n, d)).collect();
        let units: Vec<QI> = [(1, 1), (-1, 1), (2, 1), (1, 3), (-5, 7)].iter().map(|&(n, d)| QI::new(n, d)).collect();
        let c = GenCtx::<QI> { ring: "Q.i64".into(), txt: &|x| x.txt(), enorm: &|x| if x.is_zero() { 0 } else { 1 }, units, overflow_ok: false };
        run_gen(&mut s, &c, &vi, if th { 4000 } else { 900 }, &mut r);
        // larger magnitudes: unary operations and division only need one multiplication
        let bigs: Vec<QI> = [((1i64 << 31) + 1, 3i64), (-(1i64 << 53) - 1, 1 << 20), ((1 << 62) - 1, 1), (1, (1 << 62) + 1), (-3, (1 << 40) + 1)].iter().map(|&(n, d)| QI::new(n, d)).collect();
        for a in &bigs { guarded_case(&mut s, "Q.i64 unary big", |s| gen_unary(s, &GenCtx::<QI> { ring: "Q.i64".into(), txt: &|x| x.txt(), enorm: &|x| if x.is_zero() { 0 } else { 1 }, units: vec![QI::new(-1, 1)], overflow_ok: false }, a)); }

        let mut vb: Vec<QB> = rs.iter().map(|&(n, d)| QB::new(BigInt::from(n), BigInt::from(d))).collect();
        let iv = int_values(&mut r, false);
        for _ in 0..(if th { 60 } else { 20 }) {
            let n = r.pick(&iv).clone();
            let mut d = r.pick(&iv).clone();
            if d.is_zero() { d = BigInt::from(3); }
            vb.push(QB::new(n, d));
        }
        let units: Vec<QB> = [(1, 1), (-1, 1), (2, 1), (1, 3), (-5, 7)].iter().map(|&(n, d)| QB::new(BigInt::from(n), BigInt::from(d))).collect();
        let c = GenCtx::<QB> { ring: "Q.big".into(), txt: &|x| x.txt(), enorm: &|x| if x.is_zero() { 0 } else { 1 }, units, overflow_ok: false };
        // corpus (F4): gcd(2/3, 5) in Q
        let (a, b) = (QB::new(BigInt::from(2), BigInt::from(3)), QB::new(BigInt::from(5), BigInt::one()));
        guarded_case(&mut s, "corpus Q", |s| gen_pair(s, &c, &a, &b));
        run_gen(&mut s, &c, &vb, if th { 4000 } else { 900 }, &mut r);
    }

    // ---- F_p (exhaustive)
    ff_all::<2>(&mut s, &mut r);
    ff_all::<3>(&mut s, &mut r);
    ff_all::<5>(&mut s, &mut r);
    ff_all::<7>(&mut s, &mut r);

    // ---- polynomials
    {
        let mut lists = poly_coeff_lists(&mut r, if th { 40 } else { 14 }, 4, None);
        // products with a common factor (non-trivial gcds through the loop), and multiples (early returns)
        let base = lists.clone();
        for _ in 0..(if th { 40 } else { 12 }) {
            let (x, h) = (r.pick(&base[..14]).clone(), r.pick(&base[5..14]).clone());
            let p = poly_mul_lists(&x, &h);
            if p.len() <= 6 { lists.push(p); }
        }
        let pq_i: Vec<Poly<'x', QI>> = lists.iter().map(|l| mk_poly(&l.iter().map(|&(n, d)| QI::new(n, d)).collect::<Vec<_>>())).collect();
        let pq_b: Vec<Poly<'x', QB>> = lists.iter().map(|l| mk_poly(&l.iter().map(|&(n, d)| QB::new(BigInt::from(n), BigInt::from(d))).collect::<Vec<_>>())).collect();
        let cu = |n: i64, d: i64| (n, d);
        let unit_consts = [cu(1, 1), cu(-1, 1), cu(2, 1), cu(-2, 3)];
        let c = GenCtx::<Poly<'x', QB>> {
            ring: "PQ.big".into(), txt: &|f| poly_txt(f, &|c: &QB| c.txt()), enorm: &|f| if f.is_zero() { 0 } else { f.lead_deg() as u64 + 1 },
            units: unit_consts.iter().map(|&(n, d)| Poly::from_const(QB::new(BigInt::from(n), BigInt::from(d)))).collect(), overflow_ok: false,
        };
        run_gen(&mut s, &c, &pq_b, if th { 5000 } else { 700 }, &mut r);
        let c = GenCtx::<Poly<'x', QI>> {
            ring: "PQ.i64".into(), txt: &|f| poly_txt(f, &|c: &QI| c.txt()), enorm: &|f| if f.is_zero() { 0 } else { f.lead_deg() as u64 + 1 },
            units: unit_consts.iter().map(|&(n, d)| Poly::from_const(QI::new(n, d))).collect(), overflow_ok: true,
        };
        run_gen(&mut s, &c, &pq_i, if th { 5000 } else { 700 }, &mut r);

        type F3 = FF<3>;
        let mut l3 = poly_coeff_lists(&mut r, if th { 60 } else { 20 }, 5, Some(3));
        if th {
            // exhaustive: all polynomials of degree <= 2 over F_3
            for a in 0..3 { for b in 0..3 { for c in 0..3 { l3.push(vec![(a, 1), (b, 1), (c, 1)]); } } }
        }
        let pf: Vec<Poly<'x', F3>> = l3.iter().map(|l| mk_poly(&l.iter().map(|&(n, _)| F3::new(n as i32)).collect::<Vec<_>>())).collect();
        let mut pf2: Vec<Poly<'x', F3>> = vec![];
        for f in pf { if !pf2.contains(&f) { pf2.push(f); } }
        let c = GenCtx::<Poly<'x', F3>> {
            ring: "PF3".into(), txt: &|f| poly_txt(f, &|c: &F3| c.txt()), enorm: &|f| if f.is_zero() { 0 } else { f.lead_deg() as u64 + 1 },
            units: vec![Poly::from_const(F3::new(1)), Poly::from_const(F3::new(2))], overflow_ok: false,
        };
        run_gen(&mut s, &c, &pf2, if th { 8000 } else { 1200 }, &mut r);
    }

    // ---- homogeneous polynomials
    {
        let hp_txt_q = |x: &HPoly<'x', QB>| if x.is_zero() { format!("0:{}", x.coeff().txt()) } else { format!("{}:{}", x.deg(), x.coeff().txt()) };
        let coeffs: Vec<(i64, i64)> = vec![(0, 1), (1, 1), (-1, 1), (2, 1), (-3, 2), (5, 7)];
        let mut vals: Vec<HPoly<'x', QB>> = vec![];
        for d in [0usize, 1, 2, 3, 5] { for &(n, dd) in &coeffs { vals.push(HPoly::new(d, QB::new(BigInt::from(n), BigInt::from(dd)))); } }
        let c = GenCtx::<HPoly<'x', QB>> {
            ring: "HQ".into(), txt: &hp_txt_q, enorm: &|x| if x.is_zero() { 0 } else { x.deg() as u64 + 1 },
            units: [(1, 1), (-1, 1), (2, 3)].iter().map(|&(n, d)| HPoly::from_const(QB::new(BigInt::from(n), BigInt::from(d)))).collect(), overflow_ok: false,
        };
        run_gen(&mut s, &c, &vals, if th { 2000 } else { 500 }, &mut r);
        type F3 = FF<3>;
        let hp_txt_f = |x: &HPoly<'x', F3>| if x.is_zero() { format!("0:{}", x.coeff().txt()) } else { format!("{}:{}", x.deg(), x.coeff().txt()) };
        let mut vals: Vec<HPoly<'x', F3>> = vec![];
        for d in [0usize, 1, 2, 4] { for c in 0..3 { vals.push(HPoly::new(d, F3::new(c))); } }
        let c = GenCtx::<HPoly<'x', F3>> {
            ring: "HF3".into(), txt: &hp_txt_f, enorm: &|x| if x.is_zero() { 0 } else { x.deg() as u64 + 1 },
            units: vec![HPoly::from_const(F3::new(1)), HPoly::from_const(F3::new(2))], overflow_ok: false,
        };
        run_gen(&mut s, &c, &vals, usize::MAX, &mut r);
    }

    s.finish();
}
