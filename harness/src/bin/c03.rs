//! C03 — mutual consistency of the Z / Q / F2 / F3 bigraded tables, the two library routes to a
//! bigraded table, reduced vs. unreduced over F2; Lean side: the cube reference (all four tables) and the
//! code model of `collect_gen_info`.
use std::collections::{BTreeMap, BTreeSet};
use num_bigint::BigInt;
use num_traits::Zero;
use yui::{EucRing, EucRingOps, Ratio, FF, FF2};
use yui_homology::{GridTrait, SummandTrait};
use yui_kh::kh::{KhChainExt, KhComplexBigraded, KhHomology, KhHomologyBigraded};
use yui_link::Link;
use yv::links::*;
use yv::*;

type Tbl = BTreeMap<(isize, isize), (usize, Vec<BigInt>)>;

fn tbl_of<R>(kh: &KhHomologyBigraded<R>, tor: &dyn Fn(&R) -> BigInt) -> Tbl
where R: EucRing, for<'x> &'x R: EucRingOps<R> {
    let mut t = Tbl::new();
    for idx in kh.support() {
        let s = kh.get(idx);
        if s.rank() == 0 && s.tors().is_empty() { continue }
        let mut ts: Vec<BigInt> = s.tors().iter().map(|x| tor(x)).collect();
        ts.sort();
        t.insert((idx.0, idx.1), (s.rank(), ts));
    }
    t
}

fn route1<R>(l: &Link, red: bool, tor: &dyn Fn(&R) -> BigInt) -> Tbl
where R: EucRing, for<'x> &'x R: EucRingOps<R> {
    tbl_of(&KhHomologyBigraded::<R>::new(l, &R::zero(), &R::zero(), red), tor)
}
fn route2<R>(l: &Link, red: bool, tor: &dyn Fn(&R) -> BigInt) -> Tbl
where R: EucRing, for<'x> &'x R: EucRingOps<R> {
    tbl_of(&KhComplexBigraded::<R>::new(l, &R::zero(), &R::zero(), red).homology(), tor)
}

/// Z table through route 1 / 2 in `i64`; if the fixed-width arithmetic panics (checked overflow inside the LLL / SNF preprocessing on
/// large complexes — which pivots are taken depends on randomly seeded hash maps) the SAME route is repeated in `BigInt`: the
/// property is about Z, not about the width of `i64`. A panic in arbitrary precision is not caught here.
fn z_route(s: &mut Sink, l: &Link, red: bool, route: u8) -> Tbl {
    let r = if route == 1 { guard(|| route1::<i64>(l, red, &|x| BigInt::from(*x))) } else { guard(|| route2::<i64>(l, red, &|x| BigInt::from(*x))) };
    match r {
        Some(t) => t,
        None => { s.count("machine-overflow.repeated-in-arbitrary-precision"); if route == 1 { route1::<BigInt>(l, red, &|x| x.clone()) } else { route2::<BigInt>(l, red, &|x| x.clone()) } }
    }
}

/// the same for Q: `Ratio<i64>` first, `Ratio<BigInt>` if the fixed-width arithmetic panics
fn q_route(s: &mut Sink, l: &Link, red: bool, route: u8) -> Tbl {
    let r = if route == 1 { guard(|| route1::<Ratio<i64>>(l, red, &no_tor)) } else { guard(|| route2::<Ratio<i64>>(l, red, &no_tor)) };
    match r {
        Some(t) => t,
        None => { s.count("machine-overflow.repeated-in-arbitrary-precision"); if route == 1 { route1::<Ratio<BigInt>>(l, red, &no_tor) } else { route2::<Ratio<BigInt>>(l, red, &no_tor) } }
    }
}

fn tbl_txt(t: &Tbl) -> String {
    table_txt(t.iter().map(|(k, (r, ts))| ((k.0, Some(k.1)), group_txt(*r, ts.clone()))).collect())
}
/// exact text (no chain-form canonicalisation): rank and the sorted torsion orders as reported
fn tbl_raw(t: &Tbl) -> String {
    if t.is_empty() { return "empty".into() }
    t.iter().map(|(k, (r, ts))| format!("{},{}:{}:{}", k.0, k.1, r, ts.iter().map(|x| x.to_string()).collect::<Vec<_>>().join(","))).collect::<Vec<_>>().join(" ")
}

fn no_tor<R>(_: &R) -> BigInt { BigInt::zero() }

struct Tables { z: Tbl, q: Tbl, f2: Tbl, f3: Tbl }

fn cells(ts: &[&Tbl]) -> BTreeSet<(isize, isize)> { ts.iter().flat_map(|t| t.keys().cloned()).collect() }

fn check_link(s: &mut Sink, name: &str, l: &Link, red: bool, with_model: bool) {
    let desc = format!("{} reduced={} {}", name, red as u8, link_txt(l));
    let z1 = z_route(s, l, red, 1);
    let z2 = z_route(s, l, red, 2);
    let zb = route1::<BigInt>(l, red, &|x| x.clone());
    let z128 = guard(|| route1::<i128>(l, red, &|x| BigInt::from(*x))).unwrap_or_else(|| { s.count("machine-overflow.i128"); zb.clone() });
    let t = Tables { z: z1.clone(), q: q_route(s, l, red, 1), f2: route1::<FF2>(l, red, &no_tor), f3: route1::<FF<3>>(l, red, &no_tor) };
    let q2 = q_route(s, l, red, 2);
    let f22 = route2::<FF2>(l, red, &no_tor);
    let f32 = route2::<FF<3>>(l, red, &no_tor);

    // (c) the two routes agree cell by cell, for every ring
    for (rn, a, b) in [("Z", &z1, &z2), ("Q", &t.q, &q2), ("F2", &t.f2, &f22), ("F3", &t.f3, &f32)] {
        for c in cells(&[a, b]) {
            s.oracle(a.get(&c) == b.get(&c), "bigraded table from total homology = homology of the bigraded complex",
                &format!("{} ring={} cell ({},{})", desc, rn, c.0, c.1), &format!("total-route {:?} vs bigraded-complex {:?}", a.get(&c), b.get(&c)));
        }
    }
    // integer types agree
    s.oracle(tbl_raw(&z1) == tbl_raw(&zb) && tbl_raw(&z1) == tbl_raw(&z128), "i64, i128 and BigInt give the same Z table", &desc, &format!("{} | {} | {}", tbl_raw(&z1), tbl_raw(&z128), tbl_raw(&zb)));
    // (a), (b): universal coefficients against the Z table of the bigraded complex (route 2)
    let zero = (0usize, vec![]);
    for c in cells(&[&z2, &t.q, &t.f2, &t.f3]) {
        let zc = z2.get(&c).unwrap_or(&zero);
        let zn = z2.get(&(c.0 + 1, c.1)).unwrap_or(&zero);
        s.oracle(t.q.get(&c).map(|x| x.0).unwrap_or(0) == zc.0, "rank over Q = free rank over Z", &format!("{} cell ({},{})", desc, c.0, c.1), &format!("Q {:?} Z {:?}", t.q.get(&c), zc));
        for (p, f) in [(2u32, &t.f2), (3u32, &t.f3)] {
            let div = |ts: &Vec<BigInt>| ts.iter().filter(|a| (*a % BigInt::from(p)).is_zero()).count();
            let want = zc.0 + div(&zc.1) + div(&zn.1);
            s.oracle(f.get(&c).map(|x| x.0).unwrap_or(0) == want, "dim over F_p = rank + #p-divisible torsion at (i,j) + at (i+1,j)",
                &format!("{} p={} cell ({},{})", desc, p, c.0, c.1), &format!("F_p {:?} expected {}", f.get(&c), want));
        }
    }
    s.count(&format!("crossings.{}", l.crossing_num()));
    if z2.values().any(|v| !v.1.is_empty()) { s.count("with-torsion"); }
    if z2.values().any(|v| v.1.iter().any(|a| (a % BigInt::from(3u32)).is_zero())) { s.count("with-3-torsion"); }
    if with_model {
        let req = format!("tables {} {}", red as u8, link_txt(l));
        let reply = format!("Z={} | Q={} | F2={} | F3={}", tbl_txt(&z1), tbl_txt(&t.q), tbl_txt(&t.f2), tbl_txt(&t.f3));
        s.case(&req, &reply, l.crossing_num() >= 2);
        // code model of collect_gen_info: feed the total homology's generator data, compare the derived table
        let kh = KhHomology::<i64>::new(l, &0, &0, red);
        let mut parts = vec![];
        for i in kh.support() {
            let h = kh.get(i);
            let (r, tn) = (h.rank(), h.tors().len());
            let gens: Vec<String> = (0..r + tn).map(|k| {
                let z = h.gen(k);
                let mut qs: Vec<isize> = z.gens().map(|x| x.q_deg()).collect();
                qs.sort();
                let _ = z.q_deg();
                format!("{}:{}", if k < r { "f".to_string() } else { h.tors()[k - r].to_string() }, qs.iter().map(|q| q.to_string()).collect::<Vec<_>>().join(","))
            }).collect();
            if gens.iter().any(|g| { let qs: Vec<&str> = g.split(':').nth(1).unwrap().split(',').collect(); qs.iter().any(|q| *q != qs[0]) }) { s.count("collect.nonhomogeneous-generator"); }
            parts.push(format!("{}|{}", i, gens.join(";")));
        }
        let req = format!("collect {}", parts.join(" "));
        s.case(&req, &tbl_raw(&z1), l.crossing_num() >= 2);
    }
}

/// Q-only clauses on knots whose complex over Q has pivots other than ±1 (7_7 and several 8-crossing knots): the engine's elimination
/// order follows randomly seeded hash maps, so the Q tables are built several times; Z comes from the bigraded complex (route 2)
fn check_q_repeated(s: &mut Sink, name: &str, l: &Link, reps: usize) {
    let desc = format!("{} reduced=0 {}", name, link_txt(l));
    let z2 = z_route(s, l, false, 2);
    let zero = (0usize, vec![]);
    for rep in 0..reps {
        let q1 = q_route(s, l, false, 1);
        let q2 = q_route(s, l, false, 2);
        for c in cells(&[&q1, &q2, &z2]) {
            s.oracle(q1.get(&c) == q2.get(&c), "bigraded table from total homology = homology of the bigraded complex",
                &format!("{} ring=Q cell ({},{}) build#{}", desc, c.0, c.1, rep), &format!("total-route {:?} vs bigraded-complex {:?}", q1.get(&c), q2.get(&c)));
            let zc = z2.get(&c).unwrap_or(&zero);
            for (rt, q) in [("total-route", &q1), ("bigraded-complex", &q2)] {
                s.oracle(q.get(&c).map(|x| x.0).unwrap_or(0) == zc.0, "rank over Q = free rank over Z", &format!("{} cell ({},{}) {} build#{}", desc, c.0, c.1, rt, rep), &format!("Q {:?} Z {:?}", q.get(&c), zc));
            }
        }
    }
    s.eval_only(&format!("q-repeated {}", desc), true);
    s.count("q-repeated");
}

/// (d) over F2: unreduced(i,j) = reduced(i,j-1) + reduced(i,j+1)
fn check_f2_reduced(s: &mut Sink, name: &str, l: &Link) {
    if l.is_empty() { return }
    let desc = format!("{} {}", name, link_txt(l));
    let u = route2::<FF2>(l, false, &no_tor);
    let r = route2::<FF2>(l, true, &no_tor);
    let mut cs: BTreeSet<(isize, isize)> = u.keys().cloned().collect();
    for k in r.keys() { cs.insert((k.0, k.1 - 1)); cs.insert((k.0, k.1 + 1)); }
    for c in cs {
        let want = r.get(&(c.0, c.1 - 1)).map(|x| x.0).unwrap_or(0) + r.get(&(c.0, c.1 + 1)).map(|x| x.0).unwrap_or(0);
        s.oracle(u.get(&c).map(|x| x.0).unwrap_or(0) == want, "over F2: unreduced dim(i,j) = reduced(i,j-1) + reduced(i,j+1)", &format!("{} cell ({},{})", desc, c.0, c.1), &format!("unreduced {:?} expected {}", u.get(&c), want));
    }
}

fn torus(p: usize, q: usize) -> Link {
    let w: Vec<i32> = (0..q).flat_map(|_| (1..p as i32)).collect();
    braid_closure(p, &w).unwrap()
}

fn main() {
    let args = Args::parse();
    quiet_panics();
    let thorough = args.thorough();
    let mut s = Sink::new(&args, "cases: link diagrams (corner cases, yui-link table, random braid closures, torus knots) x reduced/unreduced; per case the library's \
        bigraded tables over i64/i128/BigInt/Ratio/FF2/FF<3> via both routes are checked against the universal-coefficient identities cell by cell, \
        and against the Lean cube reference; the generator data of the total homology is replayed through the Lean model of collect_gen_info; \
        non-trivial = diagram with >= 2 crossings; distinct = distinct request lines");
    let mut r = Rng::new(args.seed);
    let mut links: Vec<(String, Link)> = vec![
        ("empty".into(), Link::empty()), ("unknot".into(), Link::unknot()), ("hopf".into(), Link::hopf_link()),
        ("trefoil".into(), Link::trefoil()), ("figure8".into(), Link::figure8()), ("kink".into(), Link::from_pd_code([[0, 0, 1, 1]])),
    ];
    let mut names = table_names(if thorough { 9 } else { 7 });
    r.shuffle(&mut names);
    names.truncate(if thorough { 60 } else { 12 });
    // 8_19 (= T(3,4)) has 3-torsion-free but non-thin homology; always include a few torsion-rich ones
    for n in ["8_19", "L6n1", "7_7"] { if !names.iter().any(|x| x == n) { names.push(n.to_string()); } }
    for n in names { if let Some(l) = load(&n) { links.push((n, l)); } }
    for _ in 0..(if thorough { 40 } else { 8 }) {
        let strands = 2 + r.below(3) as usize;
        let len = strands - 1 + r.below(if thorough { 7 } else { 5 }) as usize;
        let (w, l) = random_braid(&mut r, strands, len);
        if let Some(l) = l { links.push((format!("braid{}{:?}", strands, w), l)); }
    }
    // the same diagrams with the crossings listed in another order and the edges relabelled (the reduced theory picks its base
    // point from the code, the engine's elimination order follows it): every clause must hold for those codes as well
    let mut variants: Vec<(String, Link)> = vec![];
    for (name, l) in &links {
        let n = l.crossing_num();
        if n < 2 || n > (if thorough { 8 } else { 6 }) || !is_plain_pd(l) { continue }
        if !thorough && variants.len() >= 8 { break }
        let pd = pd_of(l);
        let v = if r.bool() { reorder(&mut r, &pd) } else { let q = reorder(&mut r, &pd); renumber(&mut r, &q) };
        variants.push((format!("{}~{:?}", name, v), link_of(&v)));
    }
    links.extend(variants);
    for (name, l) in &links {
        let n = l.crossing_num();
        if n > (if thorough { 9 } else { 8 }) { continue }
        for red in [false, true] {
            if red && l.is_empty() { continue }
            guarded_case(&mut s, name, |s| check_link(s, name, l, red, n <= (if thorough { 9 } else { 7 })));
        }
        guarded_case(&mut s, name, |s| check_f2_reduced(s, name, l));
    }
    // knots whose rational complex has non-±1 pivots, rebuilt several times (Q clauses only)
    {
        let mut qs = vec!["7_7", "8_11", "8_13", "8_14", "8_15", "8_17", "8_18", "8_21"];
        if !thorough { r.shuffle(&mut qs); qs.truncate(5); }
        for n in qs { if let Some(l) = load(n) { guarded_case(&mut s, n, |s| check_q_repeated(s, n, &l, if thorough { 4 } else { 3 })); } }
    }
    // torus knots: library-only (too many crossings for the cube reference)
    let mut tori = vec![(3, 4), (3, 5), (4, 5)];
    if thorough { tori.extend([(3, 7), (4, 7), (5, 6), (5, 7)]); }
    for (p, q) in tori {
        let name = format!("T({},{})", p, q);
        let l = torus(p, q);
        guarded_case(&mut s, &name, |s| check_link(s, &name, &l, false, false));
    }
    // the known witness of finding F5: T(6,7), unreduced, Z, both routes
    {
        let name = "T(6,7)";
        let l = torus(6, 7);
        guarded_case(&mut s, name, |s| {
            let z1 = z_route(s, &l, false, 1);
            let z2 = z_route(s, &l, false, 2);
            for c in cells(&[&z1, &z2]) {
                s.oracle(z1.get(&c) == z2.get(&c), "bigraded table from total homology = homology of the bigraded complex",
                    &format!("{} unreduced ring=Z cell ({},{})", name, c.0, c.1), &format!("total-route {:?} vs bigraded-complex {:?}", z1.get(&c), z2.get(&c)));
            }
            s.eval_only("T(6,7) unreduced Z both routes", true);
        });
    }
    s.finish();
}
