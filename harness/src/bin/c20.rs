//! C20 — the real `ykh` binary over the option product
//!        vs. the library called in-process (table content)
//!        vs. the Lean decision model (outcome class, through request lines).
//!
//! For every case the binary `/verif/.build/target-ykh/debug/ykh` (built from /repo's current tree at the start
//! of the run) is executed as a subprocess with a time limit.  Oracle (property C20, nothing more):
//!   * exit 0  ⇒ stdout is a table; the table is over the requested coefficient type; its non-`.` cells are
//!               exactly the non-zero groups the library computes in-process for the same ring, (h, t), mirror and
//!               reduced flags, in the same (i, j) positions;
//!   * exit ≠ 0 ⇒ message on stderr, nothing on stdout;
//!   * no hang (time limit), no death by signal;
//!   * malformed input (link / coefficient value) never yields a table; the documented supported combinations on
//!     valid links do yield one.
//! The request line is the option tuple; the reply is the observed outcome class.
use std::collections::{BTreeMap, HashMap};
use std::io::Read;
use std::process::{Command, Stdio};
use std::sync::atomic::{AtomicUsize, Ordering};
use std::sync::Mutex;
use std::time::{Duration, Instant};

use num_traits::Zero;
use yui::poly::{Poly, Poly2};
use yui::{EisenInt, EucRing, EucRingOps, GaussInt, Ratio, Ring, RingOps, FF};
use yui_homology::{isize2, GridTrait, SummandTrait};
use yui_kh::kh::{KhComplex, KhHomology};
use yui_link::Link;
use yv::*;

const YKH_TARGET: &str = "/verif/.build/target-ykh";
const YKH_DEFAULT: &str = "/verif/.build/target-ykh/debug/ykh";
/// the binary under test; `--ykh PATH` (for trying the harness on a modified copy of the CLI) skips the build
static YKH: std::sync::OnceLock<String> = std::sync::OnceLock::new();
const RUN_LIMIT: Duration = Duration::from_secs(10);

// ---------------------------------------------------------------------------------------------------------------
// cases

#[derive(Clone, Copy, PartialEq, Eq, Hash, Debug, PartialOrd, Ord)]
enum Cmd { Kh, Ckh }
impl Cmd { fn s(self) -> &'static str { match self { Cmd::Kh => "kh", Cmd::Ckh => "ckh" } } }

#[derive(Clone, PartialEq, Eq, Hash, Debug)]
struct Case {
    cmd: Cmd,
    ctype: String,
    cval: String,
    mirror: bool,
    reduced: bool,
    alpha: bool,
    ss: bool,
    link: String,
}

impl Case {
    fn argv(&self) -> Vec<String> {
        let mut v = vec![self.cmd.s().to_string()];
        v.push("-t".into()); v.push(self.ctype.clone());
        // `--c-value=<v>` so that values starting with `-` or empty values are passed as values
        v.push(format!("--c-value={}", self.cval));
        if self.mirror { v.push("-m".into()); }
        if self.reduced { v.push("-r".into()); }
        if self.alpha { v.push("-a".into()); }
        if self.ss { v.push("-s".into()); }
        v.push("--".into());
        v.push(self.link.clone());
        v
    }
    fn text(&self) -> String {
        format!("ykh {} -t {} -c {:?}{}{}{}{} {:?}", self.cmd.s(), self.ctype, self.cval,
            if self.mirror { " -m" } else { "" }, if self.reduced { " -r" } else { "" },
            if self.alpha { " -a" } else { "" }, if self.ss { " -s" } else { "" }, self.link)
    }
}

struct RunOut { code: Option<i32>, stdout: String, stderr: String, timed_out: bool, millis: u128 }

fn run_ykh(c: &Case) -> RunOut {
    let t0 = Instant::now();
    let mut child = Command::new(YKH.get().unwrap())
        .args(c.argv())
        .env("RUST_BACKTRACE", "0")
        .env_remove("RUST_LOG")
        .current_dir("/")
        .stdin(Stdio::null()).stdout(Stdio::piped()).stderr(Stdio::piped())
        .spawn().expect("cannot start the ykh binary");
    let mut so = child.stdout.take().unwrap();
    let mut se = child.stderr.take().unwrap();
    let h1 = std::thread::spawn(move || { let mut b = vec![]; let _ = so.read_to_end(&mut b); b });
    let h2 = std::thread::spawn(move || { let mut b = vec![]; let _ = se.read_to_end(&mut b); b });
    let mut timed_out = false;
    let status = loop {
        match child.try_wait().expect("wait") {
            Some(st) => break Some(st),
            None => {
                if t0.elapsed() > RUN_LIMIT {
                    timed_out = true;
                    let _ = child.kill();
                    let _ = child.wait();
                    break None;
                }
                std::thread::sleep(Duration::from_millis(2));
            }
        }
    };
    let stdout = String::from_utf8_lossy(&h1.join().unwrap()).to_string();
    let stderr = String::from_utf8_lossy(&h2.join().unwrap()).to_string();
    RunOut { code: status.and_then(|s| s.code()), stdout, stderr, timed_out, millis: t0.elapsed().as_millis() }
}

fn run_all(cases: &[Case], threads: usize) -> Vec<RunOut> {
    let next = AtomicUsize::new(0);
    let slots: Vec<Mutex<Option<RunOut>>> = cases.iter().map(|_| Mutex::new(None)).collect();
    std::thread::scope(|sc| {
        for _ in 0..threads {
            sc.spawn(|| loop {
                let i = next.fetch_add(1, Ordering::SeqCst);
                if i >= cases.len() { break }
                let r = run_ykh(&cases[i]);
                *slots[i].lock().unwrap() = Some(r);
            });
        }
    });
    slots.into_iter().map(|m| m.into_inner().unwrap().unwrap()).collect()
}

// ---------------------------------------------------------------------------------------------------------------
// reading a printed table back

#[derive(Clone, Debug, PartialEq, Eq)]
struct Group { rank: usize, tors: Vec<String> }   // tors sorted

#[derive(Clone, Debug, PartialEq, Eq)]
struct Table {
    bigraded: bool,
    /// (i, j) ↦ cell text, `.` cells omitted; j = 0 in the one-row format (there `0` cells are omitted)
    cells: BTreeMap<(isize, isize), String>,
}

/// parses the leading table of `out`; lines after it (`-a`, `-s` sections) are ignored
fn parse_table(out: &str) -> Result<Table, String> {
    let lines: Vec<Vec<char>> = out.lines().map(|l| l.chars().collect()).collect();
    if lines.is_empty() { return Err("empty output".into()) }
    // `kh` trims the whole text, which eats the leading blank of the header line
    let mut head = lines[0].clone();
    if head.first() != Some(&' ') { head.insert(0, ' '); }
    // column starts = starts of the blank-separated header tokens
    let mut starts = vec![];
    let mut toks = vec![];
    let mut k = 0;
    while k < head.len() {
        if head[k] != ' ' {
            let s = k;
            while k < head.len() && head[k] != ' ' { k += 1 }
            starts.push(s);
            toks.push(head[s..k].iter().collect::<String>());
        } else { k += 1 }
    }
    if toks.is_empty() { return Err("no header".into()) }
    let bigraded = match toks[0].as_str() { "j\\i" => true, "i" => false, t => return Err(format!("unknown table head '{t}'")) };
    let cols: Vec<isize> = toks[1..].iter().map(|t| t.parse::<isize>().map_err(|_| format!("column label '{t}'"))).collect::<Result<_, _>>()?;
    if cols.is_empty() { return Err("no columns".into()) }
    let field = |line: &Vec<char>, c: usize| -> String {
        let a = starts[c].min(line.len());
        let b = if c + 1 < starts.len() { starts[c + 1].min(line.len()) } else { line.len() };
        line[a..b].iter().collect::<String>().trim().to_string()
    };
    let mut cells = BTreeMap::new();
    let mut nrows = 0;
    for line in &lines[1..] {
        if line.iter().all(|c| *c == ' ') { break }
        if line.first() != Some(&' ') { break }
        // the part before the first column must be blank up to the row label
        let label: String = line[..starts[1].min(line.len())].iter().collect::<String>().trim().to_string();
        let j: isize = if bigraded {
            match label.parse() { Ok(j) => j, Err(_) => break }
        } else {
            if !label.is_empty() { break }
            0
        };
        // characters left of a column start must be blank (cells are left-aligned and separated by blanks)
        for c in 1..starts.len() {
            let p = starts[c];
            if p >= 1 && p - 1 < line.len() && line[p - 1] != ' ' { return Err(format!("row '{}' is not aligned with the header", line.iter().collect::<String>())) }
        }
        for (ci, &i) in cols.iter().enumerate() {
            let f = field(line, ci + 1);
            if f.is_empty() { return Err(format!("empty cell at i={i} j={j}")) }
            let skip = if bigraded { f == "." } else { f == "0" };
            if !skip {
                if cells.insert((i, j), f).is_some() { return Err(format!("cell ({i},{j}) occurs twice")) }
            }
        }
        nrows += 1;
        if !bigraded { break }
    }
    if nrows == 0 { return Err("table without rows".into()) }
    Ok(Table { bigraded, cells })
}

fn unsuper(c: char) -> Option<u32> {
    match c {
        '\u{2070}' => Some(0), '\u{00B9}' => Some(1), '\u{00B2}' => Some(2), '\u{00B3}' => Some(3),
        '\u{2074}'..='\u{2079}' => Some(c as u32 - 0x2070),
        _ => None,
    }
}

/// `Z² ⊕ (Z/2)² ⊕ (Z/3)` → symbol `Z`, rank 2, tors [2,2,3]
fn parse_cell(cell: &str) -> Result<(Option<String>, Group), String> {
    if cell == "0" { return Ok((None, Group { rank: 0, tors: vec![] })) }
    let mut sym: Option<String> = None;
    let mut rank = 0usize;
    let mut tors = vec![];
    for (k, piece) in cell.split(" ⊕ ").enumerate() {
        let chars: Vec<char> = piece.chars().collect();
        // trailing superscript = multiplicity
        let mut e = chars.len();
        while e > 0 && unsuper(chars[e - 1]).is_some() { e -= 1 }
        if piece.starts_with('(') {
            // torsion piece "(sym/t)" + multiplicity; a torsion coefficient may itself end in a superscript (H²),
            // but the piece always ends with ')' + multiplicity
            let mut e2 = chars.len();
            while e2 > 0 && chars[e2 - 1] != ')' { e2 -= 1 }
            if e2 == 0 { return Err(format!("torsion piece '{piece}'")) }
            let mult_s = &chars[e2..];
            if !mult_s.iter().all(|c| unsuper(*c).is_some()) { return Err(format!("torsion piece '{piece}'")) }
            let mult = if mult_s.is_empty() { 1 } else { mult_s.iter().fold(0usize, |a, c| a * 10 + unsuper(*c).unwrap() as usize) };
            let inner: String = chars[1..e2 - 1].iter().collect();
            let (s, t) = match &sym {
                Some(s) => {
                    let pre = format!("{s}/");
                    if !inner.starts_with(&pre) { return Err(format!("torsion piece '{piece}' with another symbol")) }
                    (s.clone(), inner[pre.len()..].to_string())
                }
                None => {
                    // symbol = text before the first '/' (ring symbols contain no '/')
                    let p = inner.find('/').ok_or_else(|| format!("torsion piece '{piece}'"))?;
                    (inner[..p].to_string(), inner[p + 1..].to_string())
                }
            };
            if mult == 0 || (mult == 1 && !mult_s.is_empty()) { return Err(format!("multiplicity in '{piece}'")) }
            sym = Some(s);
            for _ in 0..mult { tors.push(t.clone()) }
        } else {
            if k != 0 { return Err(format!("free piece not first in '{cell}'")) }
            let s: String = chars[..e].iter().collect();
            let r = if e == chars.len() { 1 } else { chars[e..].iter().fold(0usize, |a, c| a * 10 + unsuper(*c).unwrap() as usize) };
            if s.is_empty() || r == 0 || (r == 1 && e != chars.len()) { return Err(format!("free piece '{piece}'")) }
            sym = Some(s);
            rank = r;
        }
    }
    tors.sort();
    Ok((sym, Group { rank, tors }))
}

/// ring symbol as printed → (tag of the base type, variables)
fn ring_of_symbol(sym: &str) -> Option<(&'static str, &'static str)> {
    let (base, vars) = if let Some(p) = sym.strip_suffix("[H, T]") { (p, "HT") }
        else if let Some(p) = sym.strip_suffix("[H]") { (p, "H") }
        else if let Some(p) = sym.strip_suffix("[T]") { (p, "T") }
        else { (sym, "") };
    let b = match base { "Z" => "Z", "Q" => "Q", "F₂" => "F2", "F₃" => "F3", "Z[i]" => "Gauss", "Z[√-3]" => "Eisen", _ => return None };
    let v = match vars { "HT" => "HT", "H" => "H", "T" => "T", _ => "" };
    Some((b, v))
}

fn ring_tag(base: &str, vars: &str) -> String {
    match vars { "" => base.to_string(), "HT" => format!("{base}[H,T]"), v => format!("{base}[{v}]") }
}

// ---------------------------------------------------------------------------------------------------------------
// the harness's own reading of a coefficient value

#[derive(Clone, Debug, PartialEq, Eq, Hash)]
enum Term { Int(i64), Frac(i64, i64), Mono(char, usize) }

fn parse_term(s: &str) -> Option<Term> {
    if let Ok(v) = s.parse::<i64>() { return Some(Term::Int(v)) }
    if let Some(p) = s.rfind('/') {
        if let (Ok(a), Ok(b)) = (s[..p].parse::<i64>(), s[p + 1..].parse::<i64>()) { return Some(Term::Frac(a, b)) }
        return None
    }
    let cs: Vec<char> = s.chars().collect();
    if cs.is_empty() || (cs[0] != 'H' && cs[0] != 'T') { return None }
    if cs.len() == 1 { return Some(Term::Mono(cs[0], 1)) }
    if cs[1] != '^' { return None }
    let rest: String = cs[2..].iter().collect();
    let digits = if rest.len() == 1 { rest.clone() }
        else if rest.starts_with('{') && rest.ends_with('}') && rest.len() >= 3 { rest[1..rest.len() - 1].to_string() }
        else { return None };
    if digits.is_empty() || !digits.chars().all(|c| c.is_ascii_digit()) { return None }
    let d: usize = digits.parse().ok()?;
    if d > 1000 { return None }     // the harness never asks for such degrees as *valid* values
    Some(Term::Mono(cs[0], d))
}

trait Coef: Sized + Clone {
    fn of(t: &Term) -> Option<Self>;
}
impl Coef for i64 {
    fn of(t: &Term) -> Option<Self> { if let Term::Int(v) = t { Some(*v) } else { None } }
}
impl Coef for Ratio<i64> {
    fn of(t: &Term) -> Option<Self> {
        match t {
            Term::Int(v) => Some(Ratio::from(*v)),
            Term::Frac(a, b) if *b != 0 => Some(Ratio::new(*a, *b)),
            _ => None,
        }
    }
}
impl<const P: i32> Coef for FF<P> {
    fn of(t: &Term) -> Option<Self> {
        if let Term::Int(v) = t { i32::try_from(*v).ok().map(FF::<P>::new) } else { None }
    }
}
impl Coef for GaussInt<i64> {
    fn of(t: &Term) -> Option<Self> { if let Term::Int(v) = t { Some(GaussInt::from(*v)) } else { None } }
}
impl Coef for EisenInt<i64> {
    fn of(t: &Term) -> Option<Self> { if let Term::Int(v) = t { Some(EisenInt::from(*v)) } else { None } }
}
impl<const X: char, B> Coef for Poly<X, B>
where B: Coef + Ring, for<'x> &'x B: RingOps<B> {
    fn of(t: &Term) -> Option<Self> {
        match t {
            Term::Mono(x, d) => if *x == X { Some(Self::from(Self::mono(*d))) } else { None },
            t => B::of(t).map(Self::from_const),
        }
    }
}
impl<B> Coef for Poly2<'H', 'T', B>
where B: Coef + Ring, for<'x> &'x B: RingOps<B> {
    fn of(t: &Term) -> Option<Self> {
        match t {
            Term::Mono('H', d) => Some(Self::from(Self::mono(*d, 0))),
            Term::Mono('T', d) => Some(Self::from(Self::mono(0, *d))),
            Term::Mono(..) => None,
            t => B::of(t).map(Self::from_const),
        }
    }
}

/// (h, t) denoted by the `-c` text in the ring `R`, `None` when the text is not a value (pair) of `R`
fn parse_ht<R: Coef + Zero>(s: &str) -> Option<(R, R)> {
    if let Some(t) = parse_term(s) {
        if let Some(c) = R::of(&t) { return Some((c, R::zero())) }
    }
    let p = s.rfind(',')?;
    let (s1, s2) = (&s[..p], &s[p + 1..]);
    let a = R::of(&parse_term(s1)?)?;
    let b = R::of(&parse_term(s2)?)?;
    Some((a, b))
}

// ---------------------------------------------------------------------------------------------------------------
// the library, in-process

#[derive(Clone, Debug)]
enum Expect {
    /// (i, j) ↦ non-zero group; j = 0 in the graded case
    Groups(String, BTreeMap<(isize, isize), Group>),
    /// the `-c` text is not a value of this ring / the flags are outside the library's contract: no table may appear
    NotAValue,
    /// the ring cannot be used with this command at all (not Euclidean, …)
    NoSuchRing,
    Panic,
}

fn group_of<S: SummandTrait>(s: &S) -> Group where S::R: Ring, for<'x> &'x S::R: RingOps<S::R> {
    let mut tors: Vec<String> = s.tors().iter().map(|t| t.to_string()).collect();
    tors.sort();
    Group { rank: s.rank(), tors }
}

fn exp_kh<R>(l: &Link, cval: &str, reduced: bool, bigraded: bool) -> Expect
where R: EucRing + Coef, for<'x> &'x R: EucRingOps<R> {
    let Some((h, t)) = parse_ht::<R>(cval) else { return Expect::NotAValue };
    if reduced && !t.is_zero() { return Expect::NotAValue }
    let r = guard(|| {
        let kh = KhHomology::new(l, &h, &t, reduced);
        let mut m = BTreeMap::new();
        if bigraded {
            let g = kh.into_bigraded();
            for idx in g.support() {
                let isize2(i, j) = idx;
                let s = g.get(idx);
                if !s.is_zero() { m.insert((i, j), group_of(s)); }
            }
        } else {
            for i in kh.support() {
                let s = kh.get(i);
                if !s.is_zero() { m.insert((i, 0), group_of(s)); }
            }
        }
        m
    });
    match r { Some(m) => Expect::Groups(R::math_symbol(), m), None => Expect::Panic }
}

fn exp_ckh<R>(l: &Link, cval: &str, reduced: bool) -> Expect
where R: Ring + Coef, for<'x> &'x R: RingOps<R> {
    let Some((h, t)) = parse_ht::<R>(cval) else { return Expect::NotAValue };
    if reduced && !t.is_zero() { return Expect::NotAValue }
    let r = guard(|| {
        let c = KhComplex::new(l, &h, &t, reduced);
        let g = c.gen_grid();
        let mut m = BTreeMap::new();
        for idx in g.support() {
            let isize2(i, j) = idx;
            let s = g.get(idx);
            if !s.is_zero() { m.insert((i, j), group_of(s)); }
        }
        m
    });
    match r { Some(m) => Expect::Groups(R::math_symbol(), m), None => Expect::Panic }
}

type Z = i64;
type Q = Ratio<i64>;
type F2 = FF<2>;
type F3 = FF<3>;

fn expect(cmd: Cmd, base: &str, vars: &str, l: &Link, cval: &str, reduced: bool, bigraded: bool) -> Expect {
    match cmd {
        Cmd::Kh => match (base, vars) {
            ("Z", "") => exp_kh::<Z>(l, cval, reduced, bigraded),
            ("Q", "") => exp_kh::<Q>(l, cval, reduced, bigraded),
            ("F2", "") => exp_kh::<F2>(l, cval, reduced, bigraded),
            ("F3", "") => exp_kh::<F3>(l, cval, reduced, bigraded),
            ("Gauss", "") => exp_kh::<GaussInt<i64>>(l, cval, reduced, bigraded),
            ("Eisen", "") => exp_kh::<EisenInt<i64>>(l, cval, reduced, bigraded),
            ("Q", "H") => exp_kh::<Poly<'H', Q>>(l, cval, reduced, bigraded),
            ("Q", "T") => exp_kh::<Poly<'T', Q>>(l, cval, reduced, bigraded),
            ("F2", "H") => exp_kh::<Poly<'H', F2>>(l, cval, reduced, bigraded),
            ("F2", "T") => exp_kh::<Poly<'T', F2>>(l, cval, reduced, bigraded),
            ("F3", "H") => exp_kh::<Poly<'H', F3>>(l, cval, reduced, bigraded),
            ("F3", "T") => exp_kh::<Poly<'T', F3>>(l, cval, reduced, bigraded),
            _ => Expect::NoSuchRing,
        },
        Cmd::Ckh => match (base, vars) {
            ("Z", "") => exp_ckh::<Z>(l, cval, reduced),
            ("Q", "") => exp_ckh::<Q>(l, cval, reduced),
            ("F2", "") => exp_ckh::<F2>(l, cval, reduced),
            ("F3", "") => exp_ckh::<F3>(l, cval, reduced),
            ("Gauss", "") => exp_ckh::<GaussInt<i64>>(l, cval, reduced),
            ("Eisen", "") => exp_ckh::<EisenInt<i64>>(l, cval, reduced),
            ("Z", "H") => exp_ckh::<Poly<'H', Z>>(l, cval, reduced),
            ("Z", "T") => exp_ckh::<Poly<'T', Z>>(l, cval, reduced),
            ("Q", "H") => exp_ckh::<Poly<'H', Q>>(l, cval, reduced),
            ("Q", "T") => exp_ckh::<Poly<'T', Q>>(l, cval, reduced),
            ("F2", "H") => exp_ckh::<Poly<'H', F2>>(l, cval, reduced),
            ("F2", "T") => exp_ckh::<Poly<'T', F2>>(l, cval, reduced),
            ("F3", "H") => exp_ckh::<Poly<'H', F3>>(l, cval, reduced),
            ("F3", "T") => exp_ckh::<Poly<'T', F3>>(l, cval, reduced),
            ("Z", "HT") => exp_ckh::<Poly2<'H', 'T', Z>>(l, cval, reduced),
            ("Q", "HT") => exp_ckh::<Poly2<'H', 'T', Q>>(l, cval, reduced),
            ("F2", "HT") => exp_ckh::<Poly2<'H', 'T', F2>>(l, cval, reduced),
            ("F3", "HT") => exp_ckh::<Poly2<'H', 'T', F3>>(l, cval, reduced),
            _ => Expect::NoSuchRing,
        },
    }
}

// ---------------------------------------------------------------------------------------------------------------
// link arguments

#[derive(Clone, Copy, PartialEq, Eq, Debug)]
enum LinkClass { Ok, Invalid, Panics, Hangs }
impl LinkClass { fn s(self) -> &'static str { match self { LinkClass::Ok => "ok", LinkClass::Invalid => "invalid", LinkClass::Panics => "panics", LinkClass::Hangs => "hangs" } } }

/// the harness's own `load_link`: PD-code JSON first, then a table name / path
fn load(input: &str) -> Option<Link> {
    if let Ok(pd) = serde_json::from_str::<Vec<[usize; 4]>>(input) {
        return Some(Link::from_pd_code(pd))
    }
    Link::load(input).ok()
}

/// what the library makes of the link argument under the given flags (once per distinct triple):
/// the cheapest complete library call, integral Khovanov homology with h = t = 0
fn classify_link(input: &str, mirror: bool, reduced: bool) -> (LinkClass, Option<Link>) {
    let s = input.to_string();
    let r = guard_timeout(15, move || {
        let l = load(&s)?;
        let l = if mirror { l.mirror() } else { l };
        let kh = KhHomology::<i64>::new(&l, &0, &0, reduced);
        let _ = kh.into_bigraded();
        Some(l)
    });
    match r {
        None => (LinkClass::Hangs, None),
        Some(None) => (LinkClass::Panics, None),
        Some(Some(None)) => (LinkClass::Invalid, None),
        Some(Some(Some(l))) => (LinkClass::Ok, Some(l)),
    }
}

// ---------------------------------------------------------------------------------------------------------------

/// char-boundary-safe truncation (the shared `yv::trunc` slices at a byte index)
fn cut(s: &str, n: usize) -> String {
    if s.len() <= n { return s.to_string() }
    let mut e = n;
    while !s.is_char_boundary(e) { e -= 1 }
    format!("{}…[{} bytes]", &s[..e], s.len())
}

fn hex(s: &str) -> String {
    if s.is_empty() { "-".into() } else { s.bytes().map(|b| format!("{:02x}", b)).collect() }
}

fn err_class(stderr: &str) -> &'static str {
    let e = stderr;
    if e.contains("is not supported for") { "unsupported" }
    else if e.contains("--features") { "unsupported-feature" }
    else if e.contains("cannot parse") { "err parse" }
    else if e.contains("must be") { "err precheck" }
    else if e.contains("invalid input link") { "err link" }
    else if e.contains("panic") { "err panic" }
    else if e.contains("Usage:") || e.contains("--help") { "err usage" }
    else { "err other" }
}

/// combinations the README documents as supported (on a valid link a table must come out)
fn documented_supported(c: &Case) -> bool {
    if c.alpha || c.ss { return false }
    let small_int = c.cval.parse::<i64>().map(|v| v.abs() <= 3).unwrap_or(false) && c.cval.chars().all(|x| x.is_ascii_digit() || x == '-');
    let field = matches!(c.ctype.as_str(), "Q" | "F2" | "F3");
    let std = matches!(c.ctype.as_str(), "Z" | "Q" | "F2" | "F3");
    match c.cmd {
        Cmd::Kh => (std && small_int) || (field && (c.cval == "H" || (c.cval == "0,T" && !c.reduced))),
        Cmd::Ckh => (std && small_int) || (std && (c.cval == "H" || ((c.cval == "0,T" || c.cval == "H,T") && !c.reduced))),
    }
}

/// (h, t) homogeneous for the q-grading (deg h = -2, deg t = -4; deg H = -2, deg T = -4)
fn homogeneous(cval: &str) -> bool {
    let (h, t) = match cval.rfind(',') { Some(p) => (&cval[..p], &cval[p + 1..]), None => (cval, "0") };
    let zero = |s: &str| s.parse::<i64>().map(|v| v == 0).unwrap_or(false);
    (zero(h) || h == "H") && (zero(t) || t == "T" || t == "H^2" || t == "H^{2}")
}

struct Features { poly: bool, qint: bool }

/// default features of the `ykh` crate (the binary is built with default features)
fn read_features() -> Features {
    let txt = std::fs::read_to_string("/repo/bin-ykh/Cargo.toml").expect("bin-ykh/Cargo.toml");
    let v = |name: &str| -> Vec<String> {
        for line in txt.lines() {
            let l = line.trim();
            if let Some(rest) = l.strip_prefix(name) {
                let rest = rest.trim_start();
                if let Some(rest) = rest.strip_prefix('=') {
                    return rest.split(|c| c == '[' || c == ']' || c == ',').map(|s| s.trim().trim_matches('"').to_string()).filter(|s| !s.is_empty()).collect()
                }
            }
        }
        vec![]
    };
    let mut on: Vec<String> = v("default");
    // one level of feature implication is all the manifest uses (`all = ["poly", "qint"]`)
    for f in on.clone() { on.extend(v(&f)); }
    Features { poly: on.iter().any(|f| f == "poly"), qint: on.iter().any(|f| f == "qint") }
}

fn build_ykh() {
    let t0 = Instant::now();
    let out = Command::new("cargo")
        .args(["build", "--offline", "--manifest-path", "/repo/Cargo.toml", "-p", "ykh", "--target-dir", YKH_TARGET])
        .current_dir("/repo")
        .env_remove("CARGO_TARGET_DIR").env_remove("RUSTFLAGS").env_remove("CARGO_BUILD_RUSTFLAGS").env_remove("CARGO_ENCODED_RUSTFLAGS")
        .output().expect("cannot run cargo");
    if !out.status.success() {
        eprintln!("the ykh binary does not build from /repo:\n{}", String::from_utf8_lossy(&out.stderr));
        std::process::exit(3);
    }
    let log = String::from_utf8_lossy(&out.stderr);
    let compiled: Vec<&str> = log.lines().filter(|l| l.trim_start().starts_with("Compiling")).map(|l| l.trim()).collect();
    eprintln!("ykh built in {:.1}s ({})", t0.elapsed().as_secs_f64(), if compiled.is_empty() { "up to date".to_string() } else { compiled.join(", ") });
}

// ---------------------------------------------------------------------------------------------------------------
// case generation

const CTYPES: &[&str] = &["Z", "Q", "F2", "F3", "Gauss", "Eisen"];
const CVALS: &[&str] = &["0", "1", "2", "1,2", "H", "0,T", "H,T", "0,0", "x", "1,2,3", ""];

fn product(cases: &mut Vec<Case>, links: &[&str], cvals: &[&str], ctypes: &[&str]) {
    for link in links { for cmd in [Cmd::Kh, Cmd::Ckh] { for ct in ctypes { for cv in cvals { for m in [false, true] { for r in [false, true] {
        cases.push(Case { cmd, ctype: ct.to_string(), cval: cv.to_string(), mirror: m, reduced: r, alpha: false, ss: false, link: link.to_string() });
    }}}}}}
}

fn rand_cval(r: &mut Rng) -> String {
    let ints = ["0", "1", "-1", "2", "3", "-2", "+1", "-0", "007", "4", "6", "2147483647", "2147483648", "-2147483648", "-2147483649",
        "9223372036854775808", "-9223372036854775809", "99999999999999999999", "+", "-", "1 ", " 1", "1.0", "0x1", "１"];
    let small = ["0", "1", "2", "3", "-1", "-2", "0", "0"];
    let fr = ["1/2", "0/5", "2/4", "-3/2", "1/0", "0/0", "1/-2", "1/2/3", "/2", "1/", "3/1"];
    let mono = ["H", "T", "H^2", "H^{2}", "T^2", "H^{10}", "H^0", "H^{-1}", "H^12", "H^{2", "HT", "H T", "TH", "h", "t", "X", "H^", "1H", "H^{18446744073709551616}"];
    let junk = ["x", "", ",", ",,", "1,", ",1", "a,b", "1;2", "1, 2", "1 ,2", "⊕", "H,", ",T", "0,,T", "NaN", "inf", "1e3", "()", "(1,2)", "[1,2]"];
    let piece = |r: &mut Rng| -> String {
        match r.below(10) {
            0..=2 => r.pick(&small).to_string(),
            3 => r.pick(&ints).to_string(),
            4 => r.pick(&fr).to_string(),
            5..=7 => r.pick(&mono).to_string(),
            _ => r.pick(&junk).to_string(),
        }
    };
    match r.below(10) {
        0..=2 => piece(r),
        3..=7 => format!("{},{}", piece(r), piece(r)),
        8 => format!("{},{},{}", piece(r), piece(r), piece(r)),
        _ => r.pick(&junk).to_string(),
    }
}

fn main() {
    let args = Args::parse();
    if std::env::var("C20_LOUD").is_err() { quiet_panics(); }
    match args.extra.iter().position(|a| a == "--ykh") {
        Some(p) => { YKH.set(args.extra[p + 1].clone()).unwrap(); }
        None => { build_ykh(); YKH.set(YKH_DEFAULT.to_string()).unwrap(); }
    }
    let feats = read_features();
    let mut rng = Rng::new(args.seed);
    let mut sink = Sink::new(&args, "a case is non-trivial when the real binary printed a table that was compared cell by cell with the library, or when the input is malformed/unsupported and the error contract was checked; distinct = distinct option tuples");

    // ---- links
    let trefoil_pd = "[[1,4,2,5],[3,6,4,1],[5,2,6,3]]";
    let mut good: Vec<&str> = vec!["3_1", "4_1", "L2a1", trefoil_pd, "[[1,1,2,2]]", "[]", "[[4, 1, 3, 2], [2, 3, 1, 4]]"];
    let kinked = "[[1,4,2,5],[3,6,4,1],[5,2,6,7],[7,8,8,3]]";   // trefoil with a kink
    good.push(kinked);
    let file_link = "/repo/yui-link/resources/links/5_2.json";   // a path instead of a name
    let mut bad: Vec<&str> = vec![
        "[[1,2,1,1]]", "[[1,1,1,1]]", "[[1,2,3,4]]", "[[1,2,2,1],[3,3,1,4]]",     // semantically malformed PD codes
        "[[1,4,2,5],[3,6,4,1],[5,2,6", "[[1,2,3]]", "[1,2,3,4]", "{}", "[[1,2,3,-4]]", "[[1,2,3,4.5]]", "null",   // malformed JSON / wrong shape
        "99_1", "10_999", "3_1 ", "K3a1", "trefoil", "", "0_1", "L2a1.json",      // unknown names
        "/verif/AGENTS.md", "/repo/bin-ykh/Cargo.toml", "/repo/yui-link/resources/links", "/nonexistent/x.json",   // paths to non-link files
    ];
    let mut extra_good: Vec<String> = vec![];
    if args.thorough() {
        // more names from the built-in table (≤ 8 crossings) and their PD codes given literally
        let mut names = vec![];
        if let Ok(rd) = std::fs::read_dir("/repo/yui-link/resources/links") {
            for e in rd.flatten() {
                let n = e.file_name().to_string_lossy().to_string();
                if let Some(n) = n.strip_suffix(".json") {
                    let small = n.starts_with("5_") || n.starts_with("6_") || n.starts_with("7_") || n.starts_with("L4") || n.starts_with("L5") || n.starts_with("L6") || n.starts_with("L7");
                    if small { names.push(n.to_string()) }
                }
            }
        }
        names.sort();
        rng.shuffle(&mut names);
        names.truncate(24);
        for n in &names {
            if rng.chance(1, 3) {
                if let Ok(t) = std::fs::read_to_string(format!("/repo/yui-link/resources/links/{n}.json")) { extra_good.push(t.trim().to_string()); continue }
            }
            extra_good.push(n.clone());
        }
    }

    // ---- cases
    let mut cases: Vec<Case> = vec![];
    // corpus: the full option product on the good links
    product(&mut cases, &good, CVALS, CTYPES);
    product(&mut cases, &[file_link], &["0", "H", "x"], &["Z", "Q"]);
    // bad link arguments under a reduced product
    product(&mut cases, &bad, &["0", "H", "1,2", "x"], &["Z", "Q", "Gauss"]);
    bad.push("-x");
    // unknown -t values (clap rejects)
    for ct in ["F5", "z", "", "R", "F2 "] {
        for cmd in [Cmd::Kh, Cmd::Ckh] {
            cases.push(Case { cmd, ctype: ct.into(), cval: "0".into(), mirror: false, reduced: false, alpha: false, ss: false, link: "3_1".into() });
        }
    }
    // -a / -s pre-checks
    for cmd in [Cmd::Kh, Cmd::Ckh] { for (ct, cv) in [("Z", "0"), ("Z", "2"), ("Z", "1"), ("Z", "0,1"), ("Z", "2,1"), ("Q", "H"), ("Q", "0,T"), ("Q", "2"), ("F2", "H"), ("F3", "3"), ("Q", "H,H")] {
        for (a, s) in [(true, false), (false, true), (true, true)] { for rd in [false, true] {
            for link in ["3_1", "4_1"] {
                cases.push(Case { cmd, ctype: ct.into(), cval: cv.into(), mirror: false, reduced: rd, alpha: a, ss: s, link: link.into() });
            }
        }}
    }}
    // generated stream
    let all_links: Vec<String> = good.iter().map(|s| s.to_string()).chain(extra_good.iter().cloned()).collect();
    let n_rand = if args.thorough() { 12000 } else { 1500 };
    for _ in 0..n_rand {
        let cmd = if rng.bool() { Cmd::Kh } else { Cmd::Ckh };
        let ct = if rng.chance(1, 40) { *rng.pick(&["F5", "q", "Z2"]) } else { *rng.pick(CTYPES) };
        let cv = if rng.chance(1, 3) { rng.pick(CVALS).to_string() } else { rand_cval(&mut rng) };
        // big integers are meant to probe the parsers (i32 inside FF<p>, i64 elsewhere); as *values* of ℤ or ℚ they make the
        // library's i64 arithmetic overflow (a panic or not, depending on the elimination order), so they go to 𝔽₂/𝔽₃ only
        let big = cv.split(|c| c == ',' || c == '/').any(|p| p.parse::<i64>().map(|v| v.unsigned_abs() > 1000).unwrap_or(false));
        let ct = if big && !matches!(ct, "F2" | "F3") { if rng.bool() { "F2" } else { "F3" } } else { ct };
        let link = if rng.chance(1, 8) { rng.pick(&bad).to_string() } else { rng.pick(&all_links).clone() };
        let alpha = rng.chance(1, 10);
        cases.push(Case { cmd, ctype: ct.into(), cval: cv, mirror: rng.bool(), reduced: rng.bool(), alpha, ss: false, link });
    }
    if args.thorough() {
        let refs: Vec<&str> = extra_good.iter().map(|s| s.as_str()).collect();
        product(&mut cases, &refs, &["0", "1", "2", "H", "0,T", "H,T", "1,2"], &["Z", "Q", "F2", "F3"]);
    }
    // drop values the request line cannot carry
    cases.retain(|c| !c.cval.contains('\n') && !c.link.contains('\n'));

    // ---- run the real binary
    let t0 = Instant::now();
    let outs = run_all(&cases, 12);
    eprintln!("{} process runs in {:.1}s", cases.len(), t0.elapsed().as_secs_f64());

    // ---- evaluate
    let mut link_cache: HashMap<(String, bool, bool), (LinkClass, Option<Link>)> = HashMap::new();
    let mut seen_cells: std::collections::BTreeSet<(String, String)> = Default::default();
    let mut exp_cache: HashMap<(Cmd, String, String, String, bool, bool, String, bool), Expect> = HashMap::new();
    for (c, o) in cases.iter().zip(outs.iter()) {
        let desc = c.text();
        let (lclass, link) = link_cache.entry((c.link.clone(), c.mirror, c.reduced)).or_insert_with(|| classify_link(&c.link, c.mirror, c.reduced)).clone();
        sink.count(&format!("cmd.{}", c.cmd.s()));
        sink.count(&format!("ctype.{}", if CTYPES.contains(&c.ctype.as_str()) { c.ctype.as_str() } else { "other" }));
        sink.count(&format!("link.{}", lclass.s()));
        sink.count_n("millis.total", o.millis as u64);

        // (1) no hang, no signal
        sink.oracle(!o.timed_out, "the command terminates within the time limit", &desc, &format!("killed after {} ms", o.millis));
        if o.timed_out { sink.count("outcome.hang"); }
        if !o.timed_out {
            sink.oracle(o.code.is_some(), "the command ends with an exit status (not killed by a signal)", &desc, &cut(&o.stderr, 400));
        }
        let code = o.code.unwrap_or(-1);
        let stdout_blank = o.stdout.trim().is_empty();
        let mut reply;
        let mut nontrivial = false;

        if lclass == LinkClass::Hangs {
            sink.oracle(false, "KNOWN? the library does not terminate on this link argument", &desc, "in-process call exceeded 15 s");
        }

        if !o.timed_out && code == 0 {
            // ---- a table is claimed
            match parse_table(&o.stdout) {
                Err(e) => {
                    sink.oracle(false, "exit status 0 comes with a table on stdout", &desc, &format!("{e}: {}", cut(&o.stdout, 300)));
                    reply = "ring ? exit=0".to_string();
                }
                Ok(tab) => {
                    // cells → groups, symbol
                    let mut sym: Option<String> = None;
                    let mut groups = BTreeMap::new();
                    let mut cell_err = None;
                    for (k, txt) in &tab.cells {
                        match parse_cell(txt) {
                            Ok((s, g)) => {
                                if let (Some(a), Some(b)) = (&sym, &s) { if a != b { cell_err = Some(format!("two ring symbols {a} / {b}")) } }
                                if sym.is_none() { sym = s }
                                groups.insert(*k, g);
                            }
                            Err(e) => cell_err = Some(e),
                        }
                    }
                    if let Some(sy) = &sym { for txt in tab.cells.values() { seen_cells.insert((sy.clone(), txt.clone())); } }
                    if let Some(e) = &cell_err {
                        sink.oracle(false, "every printed cell reads as a group rank/torsion text", &desc, &cut(e, 1500));
                    }
                    let ring = sym.as_deref().and_then(ring_of_symbol);
                    let fmt = if tab.bigraded { "bigraded" } else { "graded" };
                    reply = match ring { Some((b, v)) => format!("ring {} {} exit=0", ring_tag(b, v), fmt), None => format!("ring ? {} exit=0", fmt) };
                    sink.count(&format!("outcome.table.{}", ring.map(|(b, v)| ring_tag(b, v)).unwrap_or("?".into())));
                    if c.cmd == Cmd::Kh && matches!(c.cval.as_str(), "0" | "0,0" | "H" | "0,T") {
                        sink.oracle(tab.bigraded, "for h = t = 0 and for the graded theories -c H and -c 0,T the groups are listed by (i,j)", &desc, &cut(&o.stdout, 200));
                    }
                    if cell_err.is_none() {
                        match (ring, &link, lclass) {
                            (_, _, LinkClass::Invalid) | (_, _, LinkClass::Panics) | (_, None, _) =>
                                sink.oracle(false, "a malformed or unknown link argument is reported as an error, never as a table", &desc, &cut(&o.stdout, 300)),
                            (None, _, _) if sym.is_none() =>
                                // Khovanov homology / the Khovanov complex of a link is never zero (its Euler characteristic is the Jones polynomial)
                                sink.oracle(false, "the table lists exactly the non-zero groups the library computes, in the right (i,j) cells", &desc, &format!("the printed table has no non-zero cell: {}", cut(&o.stdout, 300))),
                            (None, _, _) =>
                                sink.oracle(false, "the table's groups are over a known coefficient ring", &desc, &format!("symbol {:?}: {}", sym, cut(&o.stdout, 300))),
                            (Some((b, v)), Some(l), _) => {
                                sink.oracle(b == c.ctype, "the table is over the coefficient type requested with -t", &desc, &format!("printed ring {}", ring_tag(b, v)));
                                let lm = l.clone();   // already mirrored
                                let key = (c.cmd, b.to_string(), v.to_string(), c.cval.clone(), c.reduced, tab.bigraded, c.link.clone(), c.mirror);
                                let e = exp_cache.entry(key).or_insert_with(|| expect(c.cmd, b, v, &lm, &c.cval, c.reduced, tab.bigraded)).clone();
                                match e {
                                    Expect::Groups(esym, eg) => {
                                        nontrivial = true;
                                        sink.oracle(Some(&esym) == sym.as_ref(), "the printed ring symbol is the library's symbol of the ring", &desc, &format!("{:?} vs {}", sym, esym));
                                        let mut ok = eg == groups;
                                        let mut detail = String::new();
                                        if !ok && c.cmd == Cmd::Ckh {
                                            // the generator table of the *simplified* complex is not unique: the order of the
                                            // eliminations follows hash-map iteration order (`ykh ckh 3_1 -c 1` prints two different
                                            // tables from run to run).  Exact agreement is demanded whenever the library itself is
                                            // reproducible in-process; otherwise the invariant of the simplification is compared:
                                            // the Euler characteristic (per q-degree when (h, t) is homogeneous).
                                            let mut seen = vec![eg.clone()];
                                            for _ in 0..3 {
                                                if let Expect::Groups(_, g2) = expect(c.cmd, b, v, &lm, &c.cval, c.reduced, tab.bigraded) {
                                                    if g2 == groups { ok = true; break }
                                                    seen.push(g2);
                                                }
                                            }
                                            if ok { sink.count("ckh.matched-on-retry"); }
                                            let unique = seen.iter().all(|g| *g == seen[0]);
                                            let hom = homogeneous(&c.cval);
                                            if !ok && (!unique || !hom) {
                                                let chi = |g: &BTreeMap<(isize, isize), Group>| -> BTreeMap<isize, i64> {
                                                    let mut m = BTreeMap::new();
                                                    for ((i, j), x) in g {
                                                        let key = if hom { *j } else { 0 };
                                                        let sgn = if i.rem_euclid(2) == 0 { 1 } else { -1 };
                                                        *m.entry(key).or_insert(0i64) += sgn * x.rank as i64;
                                                    }
                                                    m.retain(|_, v| *v != 0);
                                                    m
                                                };
                                                ok = chi(&eg) == chi(&groups) && groups.values().all(|g| g.tors.is_empty());
                                                sink.count("ckh.compared-by-euler-characteristic");
                                                if !ok { detail = format!("Euler characteristic: library {:?} printed {:?}; ", chi(&eg), chi(&groups)); }
                                            }
                                        }
                                        if !ok {
                                            for (k, g) in &eg { if groups.get(k) != Some(g) { detail += &format!("library {:?}={:?} printed {:?}; ", k, g, groups.get(k)); } }
                                            for (k, g) in &groups { if !eg.contains_key(k) { detail += &format!("printed {:?}={:?} library 0; ", k, g); } }
                                        }
                                        sink.oracle(ok, "the table lists exactly the non-zero groups the library computes, in the right (i,j) cells", &desc, &cut(&detail, 1500));
                                        sink.count_n("cells.compared", eg.len() as u64);
                                    }
                                    Expect::NotAValue => sink.oracle(false, "a coefficient value that is not a value (pair) of the ring, or -r with t ≠ 0, is reported as an error, never as a table", &desc, &cut(&o.stdout, 300)),
                                    Expect::NoSuchRing => sink.oracle(false, "a table is printed only for a ring the library can compute this command over", &desc, &format!("ring {}", ring_tag(b, v))),
                                    Expect::Panic => sink.oracle(false, "an internal failure of the library is reported as an error, never as a table", &desc, &cut(&o.stdout, 300)),
                                }
                            }
                        }
                    }
                }
            }
        } else if !o.timed_out {
            // ---- an error is claimed
            let has_msg = !o.stderr.trim().is_empty();
            sink.oracle(has_msg, "an error result carries a message on stderr", &desc, &format!("exit {code}"));
            sink.oracle(stdout_blank, "an error result prints no table (nothing) on stdout", &desc, &cut(&o.stdout, 300));
            let cls = err_class(&o.stderr);
            sink.count(&format!("outcome.{}", cls));
            reply = format!("{cls} exit={code}{}{}", if stdout_blank { " notable" } else { "" }, if has_msg { " msg" } else { "" });
            // documented combinations on a valid link must not be refused
            if lclass == LinkClass::Ok && documented_supported(c) {
                sink.oracle(false, "a documented supported combination on a valid link yields a table", &desc, &cut(&o.stderr, 300));
            }
            nontrivial = true;
        } else {
            reply = "hang".to_string();
        }

        // ---- the Lean model's prediction for the same option tuple
        let lk = match lclass { LinkClass::Ok => "ok", LinkClass::Invalid => "invalid", _ => "panics" };
        let req = format!("run {} {} {} {} {} {} {} {} {} {}", c.cmd.s(), if c.ctype.is_empty() || c.ctype.contains(' ') { "?".to_string() } else { c.ctype.clone() },
            hex(&c.cval), c.mirror as u8, c.reduced as u8, c.alpha as u8, c.ss as u8, feats.poly as u8, feats.qint as u8, lk);
        if reply.is_empty() { reply = "?".into() }
        sink.case(&req, &reply, nontrivial);
    }

    // ---- cell texts: Rust `rmod_str` vs the Lean `rmodStr` (the function the injectivity theorem is about)
    let n_cells = if args.thorough() { 4000 } else { 600 };
    for k in 0..n_cells {
        let rank = if k < 4 { k as usize } else { *rng.pick(&[0usize, 0, 1, 1, 2, 3, 9, 10, 11, 12, 100]) };
        let nt = if k % 7 == 0 { 0 } else { rng.below(6) as usize };
        let pool: &[i64] = &[2, 2, 2, 3, 4, 5, 8, 10, 12, 100];
        let mut tors: Vec<i64> = (0..nt).map(|_| *rng.pick(pool)).collect();
        if rng.chance(1, 5) { let m = tors.len().max(1) * 4; let t = *rng.pick(pool); tors = vec![t; m.min(13)]; }
        let txt = yui_homology::rmod_str::<i64>(rank, &tors);
        let req = format!("cell {} {} {}", hex("Z"), rank, tors.iter().map(|t| hex(&t.to_string())).collect::<Vec<_>>().join(" "));
        // the harness's reader inverts the text
        let back = parse_cell(&txt);
        let mut st: Vec<String> = tors.iter().map(|t| t.to_string()).collect();
        st.sort();
        let ok = matches!(&back, Ok((s, g)) if g.rank == rank && g.tors == st && (rank == 0 && tors.is_empty() || s.as_deref() == Some("Z")));
        sink.oracle(ok, "a printed cell determines the group (rank and torsion multiset)", &req, &format!("{txt} read back as {:?}", back));
        sink.case(req.trim_end(), &hex(&txt), rank > 0 || !tors.is_empty());
        sink.count("cell");
        if let Ok((_, g)) = &back {
            sink.case(&format!("readcell {} {}", hex("Z"), hex(&txt)), &runs_text(g), rank > 0 || !tors.is_empty());
        }
    }

    // ---- every distinct cell text of the real tables, read by the harness's reader and by the verified reader
    for (sym, txt) in &seen_cells {
        let req = format!("readcell {} {}", hex(sym), hex(txt));
        let reply = match parse_cell(txt) { Ok((_, g)) => runs_text(&g), Err(_) => "unreadable".into() };
        sink.case(&req, &reply, true);
        sink.count("readcell.real");
    }

    sink.finish();
}

/// `<rank> <tor-hex>:<multiplicity> …` (torsion texts sorted, equal ones grouped)
fn runs_text(g: &Group) -> String {
    let mut out = vec![g.rank.to_string()];
    let mut k = 0;
    while k < g.tors.len() {
        let mut m = k;
        while m < g.tors.len() && g.tors[m] == g.tors[k] { m += 1 }
        out.push(format!("{}:{}", hex(&g.tors[k]), m - k));
        k = m;
    }
    out.join(" ")
}
