//! C09 — Smith normal form: `snf(&a, flags)` for all 16 flag subsets over every supported Euclidean domain.
//!
//! Oracle (implementation alone, naive arithmetic with the ring's own `+ *`, independent of `Mat` products):
//! termination without panic; presence/absence and sizes of the transforms; `D = P·A·Q`, `P·P⁻¹ = I`, `Q·Q⁻¹ = I`
//! (and the cross relations when only some transforms were requested); `D` diagonal, non-zero entries first,
//! normalised, each divides the next; the same `D` for every flag subset; planted invariant factors are found;
//! over ℤ (sizes ≤ 5) the product of the first k diagonal entries is the gcd of all k×k minors; the number of
//! non-zero diagonal entries is the rank found by independent fraction-free elimination.
//! Model diff (ℤ, ℚ, 𝔽_p): the Lean-verified checker must accept Rust's output and Lean's own reference
//! diagonal must equal Rust's.
use num_bigint::BigInt;
use num_traits::{One, Signed, ToPrimitive, Zero};
use yui::poly::Poly;
use yui::{EisenInt, EucRing, EucRingOps, GaussInt, QuadInt, Ratio, Ring, FF};
use yui_matrix::dense::snf::snf;
use yui_matrix::dense::{Mat, MatTrait};
use yv::rings::Txt;
use yv::*;

type VV<R> = Vec<Vec<R>>;

// ---------------------------------------------------------------------------------------------------------
// ring descriptions

trait HR: EucRing + Send + Sync + 'static
where for<'a> &'a Self: EucRingOps<Self> {
    const TAG: &'static str;
    /// ring tag of the Lean driver, if it knows this ring
    const LEAN: Option<&'static str> = None;
    /// machine-integer based: an overflow panic is not a violation of the property by itself
    const MACHINE: bool = false;
    /// number of entry-size classes (0 small, 1 medium ≈ 2^53, 2 big 20–300 digits)
    const CLASSES: u64;
    const MAXDIM: usize = 8;
    fn show(&self) -> String;
    fn gen(r: &mut Rng, cls: u64) -> Self;
    /// machine rings: run the arbitrary-precision version of the same ring on the same matrix;
    /// `Some(true)` = it succeeds and every output entry fits into the machine type, `None` = it failed too
    fn wide_fits(_a: &M<Self>, _f: [bool; 4]) -> Option<bool> { None }
    /// independent rank (None = not available for this ring)
    fn rank_indep(_a: &VV<Self>) -> Option<usize> { None }
    fn to_big(&self) -> Option<BigInt> { None }
}

fn big_rand(r: &mut Rng, digits: usize) -> BigInt {
    let mut s = String::new();
    s.push(char::from(b'1' + r.below(9) as u8));
    for _ in 1..digits { s.push(char::from(b'0' + r.below(10) as u8)); }
    let v: BigInt = s.parse().unwrap();
    if r.bool() { -v } else { v }
}

fn small_i(r: &mut Rng) -> i64 {
    match r.below(10) { 0..=3 => 0, 4..=6 => r.range(-2, 2), 7 | 8 => r.range(-9, 9), _ => r.range(-60, 60) }
}
fn tiny_i(r: &mut Rng) -> i64 {
    match r.below(10) { 0..=3 => 0, 4..=7 => r.range(-2, 2), 8 => r.range(-5, 5), _ => r.range(-12, 12) }
}
/// entries for machine-integer based rings: class 0 is tiny so that LLL's Gram data stay inside i64
fn gen_mach(r: &mut Rng, cls: u64, machine: bool) -> BigInt {
    if machine && cls == 0 { BigInt::from(tiny_i(r)) } else { gen_big(r, cls) }
}
/// around 2^53 (where f64 rounding stops being exact) and around 2^31/2^32
fn med_i(r: &mut Rng) -> i64 {
    let base: i64 = *r.pick(&[1i64 << 53, (1i64 << 53) + 1, (1i64 << 53) - 1, 3 * ((1i64 << 53) + 1), 1i64 << 31, (1i64 << 32) + 1, 1i64 << 40]);
    let v = base + r.range(-3, 3);
    if r.bool() { -v } else { v }
}
fn gen_big(r: &mut Rng, cls: u64) -> BigInt {
    match cls {
        0 => BigInt::from(small_i(r)),
        1 => if r.chance(1, 4) { BigInt::zero() } else { BigInt::from(med_i(r)) },
        _ => if r.chance(1, 5) { BigInt::from(small_i(r)) } else { let d = *r.pick(&[20usize, 25, 40, 77, 150, 300]); big_rand(r, d) },
    }
}

fn bareiss_rank(a: &VV<BigInt>) -> usize {
    let m = a.len();
    let n = if m == 0 { 0 } else { a[0].len() };
    let mut a = a.clone();
    let mut prev = BigInt::one();
    let mut rank = 0;
    let mut row = 0;
    for col in 0..n {
        if row >= m { break }
        let Some(p) = (row..m).find(|&i| !a[i][col].is_zero()) else { continue };
        a.swap(row, p);
        for i in row + 1..m {
            for j in col + 1..n {
                let v = &a[i][j] * &a[row][col] - &a[i][col] * &a[row][j];
                a[i][j] = v / &prev; // exact (Bareiss)
            }
            a[i][col] = BigInt::zero();
        }
        prev = a[row][col].clone();
        row += 1;
        rank += 1;
    }
    rank
}

macro_rules! impl_hr_int {
    ($t:ty, $tag:expr, $machine:expr, $classes:expr, $conv:expr, $fits:expr) => {
        impl HR for $t {
            const TAG: &'static str = $tag;
            const LEAN: Option<&'static str> = Some("Z");
            const MACHINE: bool = $machine;
            const CLASSES: u64 = $classes;
            fn show(&self) -> String { self.to_string() }
            fn gen(r: &mut Rng, cls: u64) -> Self { let f: fn(BigInt) -> $t = $conv; f(gen_mach(r, cls, $tag == "i64")) }
            fn wide_fits(a: &M<Self>, f: [bool; 4]) -> Option<bool> {
                let fits: fn(&BigInt) -> bool = $fits;
                wide_run::<Self, BigInt>(a, f, |x| BigInt::from(x.clone()), fits)
            }
            fn rank_indep(a: &VV<Self>) -> Option<usize> {
                Some(bareiss_rank(&a.iter().map(|r| r.iter().map(|x| BigInt::from(x.clone())).collect()).collect()))
            }
            fn to_big(&self) -> Option<BigInt> { Some(BigInt::from(self.clone())) }
        }
    };
}
impl_hr_int!(i64, "i64", true, 2, |b| b.to_i64().unwrap(), |w| w.to_i64().is_some());
impl_hr_int!(i128, "i128", true, 2, |b| b.to_i128().unwrap(), |w| w.to_i128().is_some());
impl_hr_int!(BigInt, "BigInt", false, 3, |b| b, |_| true);

/// independent rank over ℤ[i] / ℤ[ω]: division-free cross-multiplication elimination on BigInt pairs
fn quad_rank<const D: i32>(a: &VV<(BigInt, BigInt)>) -> usize {
    let mul = |x: &(BigInt, BigInt), y: &(BigInt, BigInt)| -> (BigInt, BigInt) {
        let (a, b) = x; let (c, d) = y;
        if D == -1 { (a * c - b * d, a * d + b * c) } else { (a * c - b * d, a * d + b * c + b * d) } // repo: ω = (1+√-3)/2, ω² = ω − 1
    };
    let sub = |x: (BigInt, BigInt), y: (BigInt, BigInt)| (x.0 - y.0, x.1 - y.1);
    let zero = |x: &(BigInt, BigInt)| x.0.is_zero() && x.1.is_zero();
    let m = a.len();
    let n = if m == 0 { 0 } else { a[0].len() };
    let mut a = a.clone();
    let mut row = 0;
    for col in 0..n {
        if row >= m { break }
        let Some(p) = (row..m).find(|&i| !zero(&a[i][col])) else { continue };
        a.swap(row, p);
        for i in row + 1..m {
            if zero(&a[i][col]) { continue }
            for j in col + 1..n {
                a[i][j] = sub(mul(&a[i][j], &a[row][col]), mul(&a[i][col], &a[row][j]));
            }
            a[i][col] = (BigInt::zero(), BigInt::zero());
            // keep the numbers small: divide the row by the integer content
            let g = a[i].iter().fold(BigInt::zero(), |g, x| num_integer::Integer::gcd(&num_integer::Integer::gcd(&g, &x.0), &x.1));
            if !g.is_zero() && !g.is_one() { for x in a[i].iter_mut() { x.0 = &x.0 / &g; x.1 = &x.1 / &g; } }
        }
        row += 1;
    }
    row
}

macro_rules! impl_hr_quad {
    ($d:expr, $i:ty, $tag:expr, $machine:expr, $classes:expr, $conv:expr, $fits:expr) => {
        impl HR for QuadInt<$i, $d> {
            const TAG: &'static str = $tag;
            const MACHINE: bool = $machine;
            const CLASSES: u64 = $classes;
            fn show(&self) -> String { self.txt() }
            fn gen(r: &mut Rng, cls: u64) -> Self {
                let f: fn(BigInt) -> $i = $conv;
                let (a, b) = match r.below(4) { 0 => (gen_mach(r, cls, $machine), BigInt::zero()), 1 => (BigInt::zero(), gen_mach(r, cls, $machine)), _ => (gen_mach(r, cls, $machine), gen_mach(r, cls, $machine)) };
                QuadInt::new(f(a), f(b))
            }
            fn wide_fits(a: &M<Self>, f: [bool; 4]) -> Option<bool> {
                let fits: fn(&BigInt) -> bool = $fits;
                wide_run::<Self, QuadInt<BigInt, $d>>(a, f, |x| QuadInt::new(BigInt::from(x.left().clone()), BigInt::from(x.right().clone())), move |w| fits(w.left()) && fits(w.right()))
            }
            fn rank_indep(a: &VV<Self>) -> Option<usize> {
                Some(quad_rank::<$d>(&a.iter().map(|r| r.iter().map(|x| (BigInt::from(x.left().clone()), BigInt::from(x.right().clone()))).collect()).collect()))
            }
        }
    };
}
impl_hr_quad!(-1, i64, "Gauss<i64>", true, 1, |b| b.to_i64().unwrap(), |w| w.to_i64().is_some());
impl_hr_quad!(-1, BigInt, "Gauss<BigInt>", false, 3, |b| b, |_| true);
impl_hr_quad!(-3, i64, "Eisen<i64>", true, 1, |b| b.to_i64().unwrap(), |w| w.to_i64().is_some());
impl_hr_quad!(-3, BigInt, "Eisen<BigInt>", false, 3, |b| b, |_| true);

fn widen_q(x: &Ratio<i64>) -> Ratio<BigInt> { Ratio::new(BigInt::from(*x.numer()), BigInt::from(*x.denom())) }
fn fits_q(w: &Ratio<BigInt>) -> bool { w.numer().to_i64().is_some() && w.denom().to_i64().is_some() }
fn widen_pq(f: &PQ) -> PQW { PQW::from_iter(f.iter().map(|(x, c)| (x.clone(), widen_q(c)))) }
impl HR for Ratio<i64> {
    const TAG: &'static str = "Ratio<i64>";
    const LEAN: Option<&'static str> = Some("Q");
    const MACHINE: bool = true;
    const CLASSES: u64 = 1;
    const MAXDIM: usize = 6;
    fn show(&self) -> String { self.txt() }
    fn gen(r: &mut Rng, _cls: u64) -> Self {
        let n = match r.below(8) { 0..=2 => 0, 3..=5 => r.range(-3, 3), _ => r.range(-12, 12) };
        let d = if r.chance(2, 3) { 1 } else { r.range(1, 6) };
        Ratio::new(n, d)
    }
    fn wide_fits(a: &M<Self>, f: [bool; 4]) -> Option<bool> { wide_run::<Self, Ratio<BigInt>>(a, f, widen_q, fits_q) }
    fn rank_indep(a: &VV<Self>) -> Option<usize> {
        // clear denominators row by row
        let b: VV<BigInt> = a.iter().map(|row| {
            let l = row.iter().fold(BigInt::one(), |l, x| num_integer::Integer::lcm(&l, &BigInt::from(*x.denom())));
            row.iter().map(|x| BigInt::from(*x.numer()) * (&l / BigInt::from(*x.denom()))).collect()
        }).collect();
        Some(bareiss_rank(&b))
    }
}
impl HR for Ratio<BigInt> {
    const TAG: &'static str = "Ratio<BigInt>";
    const LEAN: Option<&'static str> = Some("Q");
    const CLASSES: u64 = 1;
    fn show(&self) -> String { self.txt() }
    fn gen(r: &mut Rng, cls: u64) -> Self { widen_q(&<Ratio<i64> as HR>::gen(r, cls)) }
}

fn ff_rank(a: &VV<i64>, p: i64) -> usize {
    let m = a.len();
    let n = if m == 0 { 0 } else { a[0].len() };
    let mut a = a.clone();
    let inv = |x: i64| (1..p).find(|y| x * y % p == 1).unwrap();
    let mut row = 0;
    for col in 0..n {
        if row >= m { break }
        let Some(q) = (row..m).find(|&i| a[i][col] % p != 0) else { continue };
        a.swap(row, q);
        let iv = inv(a[row][col]);
        for i in row + 1..m {
            let f = a[i][col] * iv % p;
            for j in col..n { a[i][j] = ((a[i][j] - f * a[row][j]) % p + p) % p; }
        }
        row += 1;
    }
    row
}
macro_rules! impl_hr_ff {
    ($p:expr, $tag:expr, $lean:expr) => {
        impl HR for FF<$p> {
            const TAG: &'static str = $tag;
            const LEAN: Option<&'static str> = Some($lean);
            const CLASSES: u64 = 1;
            fn show(&self) -> String { self.txt() }
            fn gen(r: &mut Rng, _cls: u64) -> Self { if r.chance(2, 5) { FF::new(0) } else { FF::new(r.range(-7, 7) as i32) } }
            fn rank_indep(a: &VV<Self>) -> Option<usize> {
                Some(ff_rank(&a.iter().map(|r| r.iter().map(|x| *x.rep() as i64).collect()).collect(), $p))
            }
        }
    };
}
impl_hr_ff!(2, "FF<2>", "F2");
impl_hr_ff!(3, "FF<3>", "F3");
impl_hr_ff!(5, "FF<5>", "F5");

type PQ = Poly<'x', Ratio<i64>>;
type PQW = Poly<'x', Ratio<BigInt>>;
type PF3 = Poly<'x', FF<3>>;
fn poly_show<R: Ring + std::fmt::Display>(f: &Poly<'x', R>) -> String where for<'a> &'a R: yui::RingOps<R> {
    f.to_string().replace(' ', "")
}
impl HR for PQ {
    const TAG: &'static str = "Poly<Ratio<i64>>";
    const MACHINE: bool = true;
    const CLASSES: u64 = 1;
    const MAXDIM: usize = 3;
    fn show(&self) -> String { poly_show(self) }
    fn gen(r: &mut Rng, _cls: u64) -> Self {
        if r.chance(1, 3) { return PQ::zero() }
        let deg = r.below(3) as usize;
        PQ::from_iter((0..=deg).map(|i| (PQ::mono(i), Ratio::new(r.range(-2, 2), 1))))
    }
    fn wide_fits(a: &M<Self>, f: [bool; 4]) -> Option<bool> { wide_run::<Self, PQW>(a, f, widen_pq, |w| w.iter().all(|(_, c)| fits_q(c))) }
}
impl HR for PQW {
    const TAG: &'static str = "Poly<Ratio<BigInt>>";
    const CLASSES: u64 = 1;
    const MAXDIM: usize = 4;
    fn show(&self) -> String { poly_show(self) }
    fn gen(r: &mut Rng, cls: u64) -> Self { widen_pq(&<PQ as HR>::gen(r, cls)) }
}
impl HR for PF3 {
    const TAG: &'static str = "Poly<FF<3>>";
    const CLASSES: u64 = 1;
    const MAXDIM: usize = 5;
    fn show(&self) -> String { poly_show(self) }
    fn gen(r: &mut Rng, _cls: u64) -> Self {
        if r.chance(1, 3) { return PF3::zero() }
        let deg = r.below(4) as usize;
        PF3::from_iter((0..=deg).map(|i| (PF3::mono(i), FF::<3>::new(r.range(0, 2) as i32))))
    }
}

// ---------------------------------------------------------------------------------------------------------
// naive matrix helpers (Vec<Vec<R>>, the ring's own + and *)

fn to_vv<R: HR>(m: &Mat<R>) -> VV<R> where for<'a> &'a R: EucRingOps<R> {
    let (r, c) = m.shape();
    (0..r).map(|i| (0..c).map(|j| m[(i, j)].clone()).collect()).collect()
}
fn to_mat<R: HR>(a: &VV<R>, m: usize, n: usize) -> Mat<R> where for<'a> &'a R: EucRingOps<R> {
    Mat::from_data((m, n), a.iter().flat_map(|r| r.iter().cloned()).collect::<Vec<_>>())
}
/// (rows, cols, data); cols is kept explicitly for 0-row matrices
#[derive(Clone)]
struct M<R> { m: usize, n: usize, a: VV<R> }
fn mm<R: HR>(x: &M<R>, y: &M<R>) -> M<R> where for<'a> &'a R: EucRingOps<R> {
    assert_eq!(x.n, y.m);
    let a = (0..x.m).map(|i| (0..y.n).map(|j| {
        let mut acc = R::zero();
        for k in 0..x.n { acc = acc + &x.a[i][k] * &y.a[k][j]; }
        acc
    }).collect()).collect();
    M { m: x.m, n: y.n, a }
}
fn is_id<R: HR>(x: &M<R>) -> bool where for<'a> &'a R: EucRingOps<R> {
    x.m == x.n && (0..x.m).all(|i| (0..x.n).all(|j| if i == j { x.a[i][j].is_one() } else { x.a[i][j].is_zero() }))
}
fn meq<R: HR>(x: &M<R>, y: &M<R>) -> bool where for<'a> &'a R: EucRingOps<R> { x.m == y.m && x.n == y.n && x.a == y.a }
fn of_mat<R: HR>(x: &Mat<R>) -> M<R> where for<'a> &'a R: EucRingOps<R> { let (m, n) = x.shape(); M { m, n, a: to_vv(x) } }
fn m_txt<R: HR>(x: &M<R>) -> String where for<'a> &'a R: EucRingOps<R> {
    x.a.iter().flat_map(|r| r.iter().map(|e| e.show())).collect::<Vec<_>>().join(" ")
}
fn ident<R: HR>(n: usize) -> M<R> where for<'a> &'a R: EucRingOps<R> {
    M { m: n, n, a: (0..n).map(|i| (0..n).map(|j| if i == j { R::one() } else { R::zero() }).collect()).collect() }
}
/// random unimodular matrix: a product of elementary operations (add a multiple of a row, swap, negate)
fn rand_unimodular<R: HR>(r: &mut Rng, n: usize, cls: u64, ops: usize) -> M<R> where for<'a> &'a R: EucRingOps<R> {
    let mut u = ident::<R>(n);
    if n < 2 { if n == 1 && r.bool() { u.a[0][0] = -R::one(); } return u }
    for _ in 0..ops {
        let i = r.below(n as u64) as usize;
        let mut j = r.below(n as u64) as usize;
        if i == j { j = (j + 1) % n; }
        match r.below(6) {
            0 => u.a.swap(i, j),
            1 => for k in 0..n { u.a[i][k] = -u.a[i][k].clone(); },
            _ => {
                let c = if r.chance(1, 6) { R::gen(r, cls) } else { R::gen(r, 0) };
                for k in 0..n { let v = &u.a[j][k] + &(&c * &u.a[i][k]); u.a[j][k] = v; }
            }
        }
    }
    u
}

/// `x | y` certified by a witness: `y = (y / x)·x`
fn divides_w<R: HR>(x: &R, y: &R) -> bool where for<'a> &'a R: EucRingOps<R> {
    if x.is_zero() { return false }
    let q = y / x;
    &(&q * x) == y
}

// determinant by Laplace expansion on BigInt (sizes ≤ 5)
fn det_big(a: &Vec<Vec<BigInt>>) -> BigInt {
    let n = a.len();
    if n == 0 { return BigInt::one() }
    if n == 1 { return a[0][0].clone() }
    let mut d = BigInt::zero();
    for j in 0..n {
        if a[0][j].is_zero() { continue }
        let minor: Vec<Vec<BigInt>> = (1..n).map(|i| (0..n).filter(|&c| c != j).map(|c| a[i][c].clone()).collect()).collect();
        let t = &a[0][j] * det_big(&minor);
        if j % 2 == 0 { d += t } else { d -= t }
    }
    d
}
fn subsets(n: usize, k: usize) -> Vec<Vec<usize>> {
    let mut out = vec![];
    for mask in 0u32..(1 << n) { if mask.count_ones() as usize == k { out.push((0..n).filter(|i| mask >> i & 1 == 1).collect()); } }
    out
}
/// gcd of all k×k minors, k = 1..min(m,n)
fn minor_gcds(a: &Vec<Vec<BigInt>>, m: usize, n: usize) -> Vec<BigInt> {
    (1..=m.min(n)).map(|k| {
        let mut g = BigInt::zero();
        for rs in subsets(m, k) { for cs in subsets(n, k) {
            let sub: Vec<Vec<BigInt>> = rs.iter().map(|&i| cs.iter().map(|&j| a[i][j].clone()).collect()).collect();
            g = num_integer::Integer::gcd(&g, &det_big(&sub));
        } }
        g
    }).collect()
}

// ---------------------------------------------------------------------------------------------------------
// one matrix: all requested flag subsets

struct Out<R> { d: M<R>, t: [Option<M<R>>; 4], obs_rank: usize, obs_factors: Vec<R> }

fn call_snf<R: HR>(a: &M<R>, flags: [bool; 4], secs: u64) -> Option<Option<Out<R>>> where for<'a> &'a R: EucRingOps<R> {
    let mat = to_mat(&a.a, a.m, a.n);
    guard_timeout(secs, move || {
        let res = snf(&mat, flags);
        let d = of_mat(res.result());
        let t = [res.p().map(of_mat), res.pinv().map(of_mat), res.q().map(of_mat), res.qinv().map(of_mat)];
        // the observers rank() / factors() (compared with the diagonal by the caller)
        let obs_rank = res.rank();
        let obs_factors: Vec<R> = res.factors().into_iter().cloned().collect();
        Out { d, t, obs_rank, obs_factors }
    })
}

fn wide_run<R: HR, W: HR>(a: &M<R>, f: [bool; 4], widen: impl Fn(&R) -> W, fits: impl Fn(&W) -> bool) -> Option<bool>
where for<'a> &'a R: EucRingOps<R>, for<'a> &'a W: EucRingOps<W> {
    let aw = M { m: a.m, n: a.n, a: a.a.iter().map(|r| r.iter().map(|x| widen(x)).collect()).collect() };
    match call_snf::<W>(&aw, f, 60) {
        Some(Some(w)) => Some(w.d.a.iter().flatten().all(|x| fits(x)) && w.t.iter().flatten().all(|t| t.a.iter().flatten().all(|x| fits(x)))),
        _ => None,
    }
}

fn flags_str(f: [bool; 4]) -> String { f.iter().map(|&b| if b { '1' } else { '0' }).collect() }

/// returns Rust's diagonal for flags 1111 (if the call succeeded)
fn check_matrix<R: HR>(s: &mut Sink, r: &mut Rng, a: &M<R>, expect_diag: Option<&Vec<R>>, all_flags: bool, kind: &str)
where for<'a> &'a R: EucRingOps<R> {
    let (m, n) = (a.m, a.n);
    let k = m.min(n);
    let a_txt = m_txt(a);
    let input = |f: [bool; 4]| format!("{} {} {} {} {}", R::TAG, m, n, flags_str(f), a_txt);
    s.count(&format!("ring.{}", R::TAG));
    s.count(&format!("kind.{}", kind));
    s.count(&format!("shape.{}x{}", m, n));

    let mut subsets: Vec<[bool; 4]> = vec![[true; 4], [false; 4]];
    if all_flags {
        subsets = (0..16u32).rev().map(|b| [b & 8 != 0, b & 4 != 0, b & 2 != 0, b & 1 != 0]).collect();
    } else {
        for _ in 0..2 { let b = r.below(16) as u32; let f = [b & 8 != 0, b & 4 != 0, b & 2 != 0, b & 1 != 0]; if !subsets.contains(&f) { subsets.push(f); } }
    }

    let mut d_full: Option<M<R>> = None;
    for f in subsets {
        let inp = input(f);
        s.count(&format!("flags.{}", flags_str(f)));
        let nontrivial = m > 0 && n > 0 && a.a.iter().any(|r| r.iter().any(|x| !x.is_zero()));
        let out = match call_snf(a, f, 60) {
            None => {
                s.oracle(false, "snf terminates (no answer within 60 s)", &inp, "timeout");
                s.count("outcome.timeout");
                s.eval_only(&inp, nontrivial);
                continue;
            }
            Some(None) => {
                s.count("outcome.panic");
                s.eval_only(&inp, nontrivial);
                if R::MACHINE {
                    // is the answer representable?  run the arbitrary-precision version of the same ring
                    match R::wide_fits(a, f) {
                        Some(fits) => {
                            if fits {
                                // out of the property's scope (it demands no panic only for arbitrary-precision
                                // coefficients): counted, not reported
                                s.count("outcome.panic.machine.representable");
                            } else {
                                s.count("outcome.panic.machine.unrepresentable");
                            }
                        }
                        None => s.oracle(false, "snf terminates without panicking for arbitrary-precision coefficients (wide re-run of a machine-integer case)", &inp, "panic/timeout in the arbitrary-precision re-run"),
                    }
                } else {
                    s.oracle(false, "snf terminates without panicking for arbitrary-precision coefficients", &inp, "panic");
                }
                continue;
            }
            Some(Some(o)) => o,
        };
        s.count("outcome.ok");
        let d = &out.d;
        // the oracle computes with the ring's own arithmetic: over machine integers an intermediate product may
        // overflow although all outputs are fine; such a check is skipped (counted), never reported
        macro_rules! ck { ($cond:expr, $clause:expr, $detail:expr) => {
            match guard(|| $cond) {
                Some(ok) => s.oracle(ok, $clause, &inp, &$detail),
                None if R::MACHINE => s.count(&format!("oracle.overflow.{}", R::TAG)),
                None => s.oracle(false, concat!("(the ring's own arithmetic panicked while evaluating) ", $clause), &inp, "panic"),
            }
        } }
        // presence / sizes
        let pres_ok = (0..4).all(|i| out.t[i].is_some() == f[i])
            && out.t[0].iter().chain(out.t[1].iter()).all(|x| x.m == m && x.n == m)
            && out.t[2].iter().chain(out.t[3].iter()).all(|x| x.m == n && x.n == n)
            && d.m == m && d.n == n;
        s.oracle(pres_ok, "exactly the requested transforms are returned, with sizes m×m / n×n, and D is m×n", &inp, "presence/size");
        if !pres_ok { s.eval_only(&inp, nontrivial); continue }
        // shape of D
        let diag_ok = (0..m).all(|i| (0..n).all(|j| i == j || d.a[i][j].is_zero()));
        s.oracle(diag_ok, "D is diagonal", &inp, &m_txt(d));
        let dg: Vec<R> = (0..k).map(|i| d.a[i][i].clone()).collect();
        let rk = dg.iter().position(|x| x.is_zero()).unwrap_or(k);
        s.oracle(dg[rk..].iter().all(|x| x.is_zero()), "non-zero diagonal entries come first", &inp, &m_txt(d));
        s.oracle(out.obs_rank == rk && out.obs_factors == dg.iter().filter(|x| !x.is_zero()).cloned().collect::<Vec<R>>(),
            "rank() and factors() describe the diagonal of result()", &inp, &format!("rank() = {} factors() = {}", out.obs_rank, out.obs_factors.iter().map(|x| x.show()).collect::<Vec<_>>().join(" ")));
        s.oracle(dg[..rk].iter().all(|x| x.normalizing_unit().is_one()), "non-zero diagonal entries are normalised", &inp, &m_txt(d));
        ck!((1..rk).all(|i| divides_w(&dg[i - 1], &dg[i])), "each diagonal entry divides the next", m_txt(d));
        // transforms
        let [p, pi, q, qi] = &out.t;
        if let (Some(p), Some(q)) = (p, q) { ck!(meq(&mm(&mm(p, a), q), d), "D = P·A·Q", format!("D={} P={} Q={}", m_txt(d), m_txt(p), m_txt(q))); }
        if let (Some(p), Some(pi)) = (p, pi) { ck!(is_id(&mm(p, pi)) && is_id(&mm(pi, p)), "P·P⁻¹ = I", format!("P={} Pinv={}", m_txt(p), m_txt(pi))); }
        if let (Some(q), Some(qi)) = (q, qi) { ck!(is_id(&mm(q, qi)) && is_id(&mm(qi, q)), "Q·Q⁻¹ = I", format!("Q={} Qinv={}", m_txt(q), m_txt(qi))); }
        if let (Some(pi), Some(qi)) = (pi, qi) { ck!(meq(&mm(&mm(pi, d), qi), a), "A = P⁻¹·D·Q⁻¹", format!("D={} Pinv={} Qinv={}", m_txt(d), m_txt(pi), m_txt(qi))); }
        if let (Some(p), Some(qi)) = (p, qi) { ck!(meq(&mm(p, a), &mm(d, qi)), "P·A = D·Q⁻¹", format!("D={} P={} Qinv={}", m_txt(d), m_txt(p), m_txt(qi))); }
        if let (Some(pi), Some(q)) = (pi, q) { ck!(meq(&mm(a, q), &mm(pi, d)), "A·Q = P⁻¹·D", format!("D={} Pinv={} Q={}", m_txt(d), m_txt(pi), m_txt(q))); }
        // the diagonal is unique: same D for every flag subset
        match &d_full {
            None => d_full = Some(d.clone()),
            Some(d0) => s.oracle(meq(d0, d), "the (unique, normalised) diagonal does not depend on the requested transforms", &inp, &format!("{} vs {}", m_txt(d0), m_txt(d))),
        }
        // planted invariant factors
        if let Some(e) = expect_diag {
            s.oracle(&dg == e, "the diagonal consists of the planted invariant factors (normalised)", &inp,
                &format!("got {} expected {}", dg.iter().map(|x| x.show()).collect::<Vec<_>>().join(" "), e.iter().map(|x| x.show()).collect::<Vec<_>>().join(" ")));
        }
        if f == [true; 4] || d_full.is_none() || f == [false; 4] {
            // rank by independent elimination
            if let Some(rk2) = R::rank_indep(&a.a) {
                s.oracle(rk == rk2, "number of non-zero diagonal entries = rank of A (fraction-free elimination)", &inp, &format!("snf rank {} vs {}", rk, rk2));
            }
            // gcds of minors (ℤ, sizes ≤ 5)
            if m <= 5 && n <= 5 && k > 0 {
                if let Some(ab) = a.a.iter().map(|r| r.iter().map(|x| x.to_big()).collect::<Option<Vec<_>>>()).collect::<Option<Vec<_>>>() {
                    let gs = minor_gcds(&ab, m, n);
                    let mut prod = BigInt::one();
                    let mut ok = true;
                    for i in 0..k { prod *= dg[i].to_big().unwrap(); if prod.abs() != gs[i] { ok = false; } }
                    s.oracle(ok, "product of the first k diagonal entries = gcd of all k×k minors of A", &inp,
                        &format!("diag {} minors-gcds {}", dg.iter().map(|x| x.show()).collect::<Vec<_>>().join(" "), gs.iter().map(|x| x.to_string()).collect::<Vec<_>>().join(" ")));
                    s.count("oracle.minors");
                }
            }
        }
        // Lean: verified checker on Rust's output + reference diagonal
        if let Some(tag) = R::LEAN {
            let mut req = format!("snf {} {} {} {}", tag, m, n, flags_str(f));
            for part in [Some(a), Some(d), p.as_ref(), pi.as_ref(), q.as_ref(), qi.as_ref()].into_iter().flatten() {
                let t = m_txt(part);
                if !t.is_empty() { req.push(' '); req.push_str(&t); }
            }
            let reply = format!("chk ok diag {}", dg.iter().map(|x| x.show()).collect::<Vec<_>>().join(" "));
            s.case(&req, reply.trim_end(), nontrivial);
        } else {
            s.eval_only(&inp, nontrivial);
        }
    }
}

fn rand_dims(r: &mut Rng, maxdim: usize) -> (usize, usize) {
    let d = |r: &mut Rng| match r.below(10) { 0 => 0, 1 => 1, 2 | 3 => 2, 4 | 5 => 3, 6 => 4, 7 => 5, _ => r.below(maxdim as u64 + 1) as usize };
    (d(r).min(maxdim), d(r).min(maxdim))
}

fn build_case<R: HR>(r: &mut Rng, maxdim: usize) -> (M<R>, Option<Vec<R>>, String)
where for<'a> &'a R: EucRingOps<R> {
    let maxdim = maxdim.min(R::MAXDIM);
    let (m, n) = rand_dims(r, maxdim);
    let cls = if R::MACHINE && R::CLASSES > 1 { if r.chance(1, 40) { 1 } else { 0 } } else { r.below(R::CLASSES) };
    let kind = r.below(12);
    match kind {
        10 | 11 => { // smooth (elementary-divisor style) diagonal: entries 2^a 3^b 5^c share factors pairwise but are rarely a
                     // divisibility chain, so the gcd/lcm sweeps of diag_normalize have real work at every position
            let k = m.min(n);
            let small = |x: usize| -> R { let mut v = R::zero(); for _ in 0..x { v = &v + &R::one(); } v };
            let mut dm = M { m, n, a: vec![vec![R::zero(); n]; m] };
            for i in 0..k {
                if r.chance(1, 8) { continue }
                let mut e = R::one();
                for p in [2usize, 3, 5] { for _ in 0..r.below(4) { e = &e * &small(p); } }
                if r.chance(1, 4) { e = -e; }
                dm.a[i][i] = e;
            }
            if r.bool() { (dm, None, "smoothdiag".into()) } else {
                let u = rand_unimodular::<R>(r, m, 0, m + 1);
                let v = rand_unimodular::<R>(r, n, 0, n + 1);
                (mm(&mm(&u, &dm), &v), None, "smoothdiag.conj".into())
            }
        }
        0 => { // zero matrix
            let a = M { m, n, a: vec![vec![R::zero(); n]; m] };
            (a, Some(vec![R::zero(); m.min(n)]), "zero".into())
        }
        1 | 2 | 3 => { // random (sparse-ish) entries
            let dens = 1 + r.below(4);
            let a = M { m, n, a: (0..m).map(|_| (0..n).map(|_| if r.below(4) < dens { R::gen(r, cls) } else { R::zero() }).collect()).collect() };
            (a, None, format!("random.c{}", cls))
        }
        4 => { // rank-deficient: rows are combinations of few rows
            let rk = if m.min(n) == 0 { 0 } else { r.below(m.min(n) as u64) as usize };
            let base = M { m: rk, n, a: (0..rk).map(|_| (0..n).map(|_| R::gen(r, cls)).collect()).collect() };
            let coef = M { m, n: rk, a: (0..m).map(|_| (0..rk).map(|_| R::gen(r, 0)).collect()).collect() };
            (mm(&coef, &base), None, format!("rankdef.c{}", cls))
        }
        5 => { // diagonal / permuted diagonal input (diag_normalize paths)
            let mut a = M { m, n, a: vec![vec![R::zero(); n]; m] };
            for i in 0..m.min(n) { if r.chance(4, 5) { a.a[i][i] = R::gen(r, cls); } }
            if r.bool() && m > 1 { let i = r.below(m as u64) as usize; let j = r.below(m as u64) as usize; a.a.swap(i, j); }
            (a, None, format!("diagonal.c{}", cls))
        }
        _ => { // planted invariant factors: U · diag(e_1 | e_2 | …) · V
            let k = m.min(n);
            let rk = if k == 0 { 0 } else { r.below(k as u64 + 1) as usize };
            let mut e: Vec<R> = vec![];
            let mut cur = R::one();
            for i in 0..rk {
                let g = loop { let g = if i == 0 || r.chance(1, 3) { R::gen(r, cls) } else if r.bool() { R::one() } else { R::gen(r, 0) }; if !g.is_zero() { break g } };
                cur = &cur * &g;
                e.push(cur.clone());
            }
            let mut dm = M { m, n, a: vec![vec![R::zero(); n]; m] };
            for i in 0..rk { dm.a[i][i] = e[i].clone(); }
            let ucls = if cls == 2 && r.chance(1, 3) { 1 } else { 0 };
            let u = rand_unimodular::<R>(r, m, ucls, 2 * m + 2);
            let v = rand_unimodular::<R>(r, n, ucls, 2 * n + 2);
            let a = mm(&mm(&u, &dm), &v);
            let mut exp: Vec<R> = e.iter().map(|x| x.normalized()).collect();
            exp.resize(k, R::zero());
            (a, Some(exp), format!("planted.c{}", cls))
        }
    }
}

fn gen_case<R: HR>(s: &mut Sink, r: &mut Rng, all_flags: bool, maxdim: usize)
where for<'a> &'a R: EucRingOps<R> {
    // the generator computes with the ring's own arithmetic: over machine integers it may overflow itself
    let mut r2 = r.fork();
    match guard(move || build_case::<R>(&mut r2, maxdim)) {
        Some((a, exp, kind)) => check_matrix(s, r, &a, exp.as_ref(), all_flags, &kind),
        None => {
            assert!(R::MACHINE, "generator panicked over an arbitrary-precision ring");
            s.count(&format!("generator.overflow.{}", R::TAG));
        }
    }
}

fn corpus(s: &mut Sink, r: &mut Rng) {
    let zi = |v: &[i64], m: usize, n: usize| M::<i64> { m, n, a: (0..m).map(|i| v[i * n..(i + 1) * n].to_vec()).collect() };
    let zb = |v: &[&str], m: usize, n: usize| M::<BigInt> { m, n, a: (0..m).map(|i| v[i * n..(i + 1) * n].iter().map(|x| x.parse().unwrap()).collect()).collect() };
    // the repository's own examples
    check_matrix(s, r, &zi(&[1, 2, 3, 4, 5, 6, 7, 8, 9], 3, 3), Some(&vec![1, 3, 0]), true, "corpus");
    check_matrix(s, r, &zi(&[-20, -7, -27, 2, 29, 17, 8, 14, -4, -10, 13, 8, 10, -4, -6, -9, -2, -14, 0, 16, 5, 0, 5, -1, -4], 5, 5), Some(&vec![1, 1, 1, 2, 60]), true, "corpus");
    check_matrix(s, r, &zi(&[4, 0, 0, 0, 0, 0, 24, 0, 0, 0, 0, 0, -2, 0, 0, 0, 0, 0, 1, 0, 0, 0, 0, 0, 72], 5, 5), Some(&vec![1, 2, 4, 24, 72]), true, "corpus");
    check_matrix(s, r, &zi(&[0, 0, 0, 0, 0, 0, -3, 0, 0, 0, 0, 0, 54, 0, 0, 0, 0, 0, 92, 0, 0, 0, 0, 0, -4], 5, 5), None, true, "corpus");
    // empty shapes
    for (m, n) in [(0, 0), (0, 3), (3, 0), (1, 1)] { check_matrix(s, r, &zi(&vec![0; m * n], m, n), None, true, "corpus"); }
    check_matrix(s, r, &zi(&[-1], 1, 1), Some(&vec![1]), true, "corpus");
    check_matrix(s, r, &zi(&[2, 0, 0, 3], 2, 2), Some(&vec![1, 6]), true, "corpus");
    check_matrix(s, r, &zi(&[6, 0, 0, 4], 2, 2), Some(&vec![2, 12]), true, "corpus");
    // beyond 2^53: exact division must stay exact
    check_matrix(s, r, &zb(&["27021597764222979", "0", "0", "3"], 2, 2), Some(&vec![BigInt::from(3), "27021597764222979".parse().unwrap()]), true, "corpus");
    check_matrix(s, r, &zb(&["9007199254740993", "9007199254740992", "1", "9007199254740993"], 2, 2), None, true, "corpus");
    check_matrix(s, r, &zb(&["100000000000000000000000000000000000000000", "3", "7", "100000000000000000000000000000000000000001"], 2, 2), None, true, "corpus");
    // F2 witness: 2x2 Gaussian integers with 30-digit entries (did not terminate before the div_round fix)
    let g = |a: &str, b: &str| GaussInt::<BigInt>::new(a.parse().unwrap(), b.parse().unwrap());
    let ga = M { m: 2, n: 2, a: vec![
        vec![g("123456789012345678901234567890", "987654321098765432109876543210"), g("111111111111111111111111111111", "-222222222222222222222222222222")],
        vec![g("-314159265358979323846264338327", "271828182845904523536028747135"), g("141421356237309504880168872420", "173205080756887729352744634150")]] };
    check_matrix(s, r, &ga, None, true, "corpus");
    let ge = M { m: 2, n: 2, a: ga.a.iter().map(|r| r.iter().map(|x| EisenInt::<BigInt>::new(x.left().clone(), x.right().clone())).collect()).collect() };
    check_matrix(s, r, &ge, None, true, "corpus");
    // units of ℤ[i], ℤ[ω] as pivots: the local gcdx wrapper's shortcut
    let gi = |a: i64, b: i64| GaussInt::<i64>::new(a, b);
    check_matrix(s, r, &M { m: 2, n: 2, a: vec![vec![gi(0, 2), gi(4, 0)], vec![gi(0, 6), gi(2, 2)]] }, None, true, "corpus");
    check_matrix(s, r, &M { m: 2, n: 3, a: vec![vec![gi(0, 1), gi(-1, 0), gi(0, -1)], vec![gi(1, 1), gi(0, 2), gi(3, 0)]] }, None, true, "corpus");
    let ei = |a: i64, b: i64| EisenInt::<i64>::new(a, b);
    check_matrix(s, r, &M { m: 2, n: 2, a: vec![vec![ei(0, 1), ei(-1, -1)], vec![ei(2, 0), ei(1, 1)]] }, None, true, "corpus");
    // fields
    let q = |a: i64, b: i64| Ratio::<i64>::new(a, b);
    check_matrix(s, r, &M { m: 2, n: 3, a: vec![vec![q(2, 3), q(5, 1), q(0, 1)], vec![q(4, 3), q(10, 1), q(0, 1)]] }, Some(&vec![q(1, 1), q(0, 1)]), true, "corpus");
    check_matrix(s, r, &M { m: 2, n: 2, a: vec![vec![FF::<5>::new(3), FF::<5>::new(4)], vec![FF::<5>::new(1), FF::<5>::new(2)]] }, Some(&vec![FF::<5>::new(1), FF::<5>::new(1)]), true, "corpus");
}

fn main() {
    let args = Args::parse();
    if !args.extra.iter().any(|x| x == "loud") { quiet_panics(); }
    let mut s = Sink::new(&args, "cases: one `snf(&a, flags)` call = one evaluation; matrices 0..8 × 0..8 (thorough: up to 12) over i64, i128, BigInt, \
        Gauss/Eisenstein integers (i64, BigInt), Ratio<i64>, FF<2,3,5>, Poly<x,Ratio<i64>>, Poly<x,FF<3>>; kinds zero / random / rank-deficient / \
        (permuted) diagonal / planted invariant factors U·diag·V; entry classes small, ≈2^53, 20–300 digits; flag subsets: all 16 (or 1111, 0000 + 2 random); \
        non-trivial = non-zero matrix with m,n > 0; distinct = distinct (ring, flags, matrix)");
    let mut r = Rng::new(args.seed);
    corpus(&mut s, &mut r);

    let th = args.thorough();
    let n = if th { 420 } else { 40 };
    let maxdim = if th { 12 } else { 8 };
    macro_rules! ring { ($t:ty, $mult:expr, $div:expr) => {
        for i in 0..(n * $mult / $div) {
            let all = th || i % 3 == 0;
            let mut rr = r.fork();
            guarded_case(&mut s, concat!("snf case over ", stringify!($t)), |s| gen_case::<$t>(s, &mut rr, all, maxdim));
        }
    } }
    ring!(i64, 2, 1);
    ring!(i128, 1, 1);
    ring!(BigInt, 3, 1);
    ring!(GaussInt<i64>, 1, 1);
    ring!(GaussInt<BigInt>, 1, 1);
    ring!(EisenInt<i64>, 1, 1);
    ring!(EisenInt<BigInt>, 1, 1);
    ring!(Ratio<i64>, 1, 1);
    ring!(FF<2>, 1, 1);
    ring!(FF<3>, 1, 1);
    ring!(FF<5>, 1, 1);
    ring!(PQ, 1, 2);
    ring!(PF3, 1, 2);
    s.finish();
}
