//! C16 — `Lc<X,R>`, `PolyBase<X,R>` (Poly, LPoly, Poly2, LPoly2, Poly3, LPoly3, PolyN, LPolyN), `HPoly`,
//! monomial types and orders: real code vs. an in-harness reference polynomial ring (oracle) vs. the Lean
//! code model (request lines).
//!
//! Texts: monomials `e` / `e0.e1` / `e0.e1.e2` / `i^e.i^e…` (`1` = no index); coefficients `-3`, `n/d`, `2`,
//! `a_b`; a polynomial is `0` or `mono:coef,…` sorted by the (stored) exponent key.
use std::any::Any;
use std::cmp::Ordering;
use std::collections::BTreeMap;
use num_traits::{One, Zero};
use yui::lc::{Free, Lc};
use yui::poly::{HPoly, Mono, MonoOrd, MultiDeg, MultiVar, PolyBase, Var, Var2, Var3};
use yui::{GaussInt, Ratio, Ring, RingOps, FF};
use yv::*;

// ---------------------------------------------------------------------------------------------------------
// coefficient rings
// ---------------------------------------------------------------------------------------------------------
trait RK: Ring + 'static
where for<'x> &'x Self: RingOps<Self> {
    const TAG: &'static str;
    fn gen(r: &mut Rng) -> Self;
    fn from_i(n: i64) -> Self;
    fn txt(&self) -> String;
    fn mag(&self) -> i64;
}

fn small(r: &mut Rng) -> i64 {
    match r.below(10) { 0 => 0, 1 | 2 => 1, 3 | 4 => -1, 5 => 2, 6 => -2, 7 => 3, 8 => -3, _ => r.range(-3, 3) }
}

impl RK for i64 {
    const TAG: &'static str = "z";
    fn gen(r: &mut Rng) -> Self { small(r) }
    fn from_i(n: i64) -> Self { n }
    fn txt(&self) -> String { self.to_string() }
    fn mag(&self) -> i64 { self.abs() }
}
impl RK for Ratio<i64> {
    const TAG: &'static str = "q";
    fn gen(r: &mut Rng) -> Self { Ratio::new(small(r), *r.pick(&[1i64, 1, 1, 2, 2, 3])) }
    fn from_i(n: i64) -> Self { Ratio::from(n) }
    fn txt(&self) -> String { format!("{}/{}", self.numer(), self.denom()) }
    fn mag(&self) -> i64 { self.numer().abs().max(self.denom().abs()) }
}
impl RK for FF<3> {
    const TAG: &'static str = "f3";
    fn gen(r: &mut Rng) -> Self { FF::<3>::new(r.range(0, 2) as i32) }
    fn from_i(n: i64) -> Self { FF::<3>::new(n.rem_euclid(3) as i32) }
    fn txt(&self) -> String { self.rep().to_string() }
    fn mag(&self) -> i64 { 1 }
}
impl RK for GaussInt<i64> {
    const TAG: &'static str = "gi";
    fn gen(r: &mut Rng) -> Self {
        if r.chance(1, 2) { GaussInt::new(small(r), 0) } else { GaussInt::new(small(r), small(r)) }
    }
    fn from_i(n: i64) -> Self { GaussInt::new(n, 0) }
    fn txt(&self) -> String { format!("{}_{}", self.left(), self.right()) }
    fn mag(&self) -> i64 { self.left().abs().max(self.right().abs()) }
}

// ---------------------------------------------------------------------------------------------------------
// monomial types
// ---------------------------------------------------------------------------------------------------------
trait MK: Mono + Clone + 'static {
    const TAG: &'static str;
    const LAURENT: bool;
    const MULTI: bool = false;
    /// a random monomial and the text it is requested with
    fn gen(r: &mut Rng) -> (Self, String);
    /// canonical text of the stored value, through public accessors only
    fn txt(&self) -> String;
    /// sort key of the stored value
    fn key(&self) -> Vec<i64>;
    /// the exponent vector it denotes (trailing zeros trimmed)
    fn dense(&self) -> Vec<i64>;
    fn stored_zero_exp(&self) -> bool { false }
    fn eval_i64(_p: &PolyBase<Self, i64>, _pt: &[i64]) -> Option<i64> { None }
    const NVARS: usize = 0;
}

fn trim(mut v: Vec<i64>) -> Vec<i64> {
    while v.last() == Some(&0) { v.pop(); }
    v
}
fn uexp(r: &mut Rng) -> usize { *r.pick(&[0usize, 0, 1, 1, 1, 2, 2, 3, 4]) }
fn iexp(r: &mut Rng) -> isize { *r.pick(&[0isize, 0, 1, 1, -1, -1, 2, -2, 3, -3]) }

impl MK for Var<'x', usize> {
    const TAG: &'static str = "p1";
    const LAURENT: bool = false;
    const NVARS: usize = 1;
    fn gen(r: &mut Rng) -> (Self, String) { let e = uexp(r); (Var::from(e), e.to_string()) }
    fn txt(&self) -> String { self.deg().to_string() }
    fn key(&self) -> Vec<i64> { vec![self.deg() as i64] }
    fn dense(&self) -> Vec<i64> { trim(self.key()) }
    fn eval_i64(p: &PolyBase<Self, i64>, pt: &[i64]) -> Option<i64> { Some(p.eval(&pt[0])) }
}
impl MK for Var<'x', isize> {
    const TAG: &'static str = "l1";
    const LAURENT: bool = true;
    const NVARS: usize = 1;
    fn gen(r: &mut Rng) -> (Self, String) { let e = iexp(r); (Var::from(e), e.to_string()) }
    fn txt(&self) -> String { self.deg().to_string() }
    fn key(&self) -> Vec<i64> { vec![self.deg() as i64] }
    fn dense(&self) -> Vec<i64> { trim(self.key()) }
}
impl MK for Var2<'x', 'y', usize> {
    const TAG: &'static str = "p2";
    const LAURENT: bool = false;
    const NVARS: usize = 2;
    fn gen(r: &mut Rng) -> (Self, String) {
        let (a, b) = (uexp(r), uexp(r));
        (Var2::from((a, b)), format!("{}.{}", a, b))
    }
    fn txt(&self) -> String { let d = self.deg(); format!("{}.{}", d.0, d.1) }
    fn key(&self) -> Vec<i64> { let d = self.deg(); vec![d.0 as i64, d.1 as i64] }
    fn dense(&self) -> Vec<i64> { trim(self.key()) }
    fn eval_i64(p: &PolyBase<Self, i64>, pt: &[i64]) -> Option<i64> { Some(p.eval(&pt[0], &pt[1])) }
}
impl MK for Var2<'x', 'y', isize> {
    const TAG: &'static str = "l2";
    const LAURENT: bool = true;
    const NVARS: usize = 2;
    fn gen(r: &mut Rng) -> (Self, String) {
        let (a, b) = (iexp(r), iexp(r));
        (Var2::from((a, b)), format!("{}.{}", a, b))
    }
    fn txt(&self) -> String { let d = self.deg(); format!("{}.{}", d.0, d.1) }
    fn key(&self) -> Vec<i64> { let d = self.deg(); vec![d.0 as i64, d.1 as i64] }
    fn dense(&self) -> Vec<i64> { trim(self.key()) }
}
impl MK for Var3<'x', 'y', 'z', usize> {
    const TAG: &'static str = "p3";
    const LAURENT: bool = false;
    const NVARS: usize = 3;
    fn gen(r: &mut Rng) -> (Self, String) {
        let (a, b, c) = (uexp(r), uexp(r), uexp(r));
        (Var3::from((a, b, c)), format!("{}.{}.{}", a, b, c))
    }
    fn txt(&self) -> String { let d = self.deg(); format!("{}.{}.{}", d.0, d.1, d.2) }
    fn key(&self) -> Vec<i64> { let d = self.deg(); vec![d.0 as i64, d.1 as i64, d.2 as i64] }
    fn dense(&self) -> Vec<i64> { trim(self.key()) }
    fn eval_i64(p: &PolyBase<Self, i64>, pt: &[i64]) -> Option<i64> { Some(p.eval(&pt[0], &pt[1], &pt[2])) }
}
impl MK for Var3<'x', 'y', 'z', isize> {
    const TAG: &'static str = "l3";
    const LAURENT: bool = true;
    const NVARS: usize = 3;
    fn gen(r: &mut Rng) -> (Self, String) {
        let (a, b, c) = (iexp(r), iexp(r), iexp(r));
        (Var3::from((a, b, c)), format!("{}.{}.{}", a, b, c))
    }
    fn txt(&self) -> String { let d = self.deg(); format!("{}.{}.{}", d.0, d.1, d.2) }
    fn key(&self) -> Vec<i64> { let d = self.deg(); vec![d.0 as i64, d.1 as i64, d.2 as i64] }
    fn dense(&self) -> Vec<i64> { trim(self.key()) }
}

fn pairs_txt<I: std::fmt::Display>(ps: &[(usize, I)]) -> String {
    if ps.is_empty() { "1".into() } else { ps.iter().map(|(i, e)| format!("{}^{}", i, e)).collect::<Vec<_>>().join(".") }
}
fn mdeg_pairs<I: Copy>(d: &MultiDeg<I>) -> Vec<(usize, I)> { d.iter().map(|(&i, &e)| (i, e)).collect() }
fn dense_of(ps: &[(usize, i64)]) -> Vec<i64> {
    let n = ps.iter().map(|p| p.0 + 1).max().unwrap_or(0);
    let mut v = vec![0i64; n];
    for &(i, e) in ps { v[i] += e; }
    trim(v)
}
/// raw `(index, exponent)` pairs for `MultiVar::from_iter`: small indices, zero exponents and repeated indices occur
fn gen_pairs(r: &mut Rng, laurent: bool) -> Vec<(usize, i64)> {
    let n = *r.pick(&[0usize, 1, 1, 2, 2, 3]);
    (0..n).map(|_| {
        let i = *r.pick(&[0usize, 0, 1, 1, 2, 3]);
        let e = if laurent { iexp(r) as i64 } else { uexp(r) as i64 };
        (i, e)
    }).collect()
}

impl MK for MultiVar<'x', usize> {
    const TAG: &'static str = "pn";
    const LAURENT: bool = false;
    const MULTI: bool = true;
    fn gen(r: &mut Rng) -> (Self, String) {
        let ps: Vec<(usize, usize)> = gen_pairs(r, false).into_iter().map(|(i, e)| (i, e as usize)).collect();
        let t = pairs_txt(&ps);
        (MultiVar::from_iter(ps), t)
    }
    fn txt(&self) -> String { pairs_txt(&mdeg_pairs(&self.deg())) }
    fn key(&self) -> Vec<i64> { mdeg_pairs(&self.deg()).iter().flat_map(|&(i, e)| [i as i64, e as i64]).collect() }
    fn dense(&self) -> Vec<i64> { dense_of(&mdeg_pairs(&self.deg()).iter().map(|&(i, e)| (i, e as i64)).collect::<Vec<_>>()) }
    fn stored_zero_exp(&self) -> bool { self.deg().iter().any(|(_, e)| *e == 0) }
}
impl MK for MultiVar<'x', isize> {
    const TAG: &'static str = "ln";
    const LAURENT: bool = true;
    const MULTI: bool = true;
    fn gen(r: &mut Rng) -> (Self, String) {
        let ps: Vec<(usize, isize)> = gen_pairs(r, true).into_iter().map(|(i, e)| (i, e as isize)).collect();
        let t = pairs_txt(&ps);
        (MultiVar::from_iter(ps), t)
    }
    fn txt(&self) -> String { pairs_txt(&mdeg_pairs(&self.deg())) }
    fn key(&self) -> Vec<i64> { mdeg_pairs(&self.deg()).iter().flat_map(|&(i, e)| [i as i64, e as i64]).collect() }
    fn dense(&self) -> Vec<i64> { dense_of(&mdeg_pairs(&self.deg()).iter().map(|&(i, e)| (i, e as i64)).collect::<Vec<_>>()) }
    fn stored_zero_exp(&self) -> bool { self.deg().iter().any(|(_, e)| *e == 0) }
}

// ---------------------------------------------------------------------------------------------------------
// reference polynomial ring: dense exponent vector -> non-zero coefficient
// ---------------------------------------------------------------------------------------------------------
type RefP<R> = BTreeMap<Vec<i64>, R>;

fn ref_norm<R: RK>(mut a: RefP<R>) -> RefP<R> where for<'x> &'x R: RingOps<R> {
    a.retain(|_, c| !c.is_zero());
    a
}
fn ref_from<R: RK>(terms: impl Iterator<Item = (Vec<i64>, R)>) -> RefP<R> where for<'x> &'x R: RingOps<R> {
    let mut m: RefP<R> = BTreeMap::new();
    for (k, c) in terms {
        let e = m.entry(k).or_insert_with(R::zero);
        *e = &*e + &c;
    }
    ref_norm(m)
}
fn ref_of<X: MK, R: RK>(p: &PolyBase<X, R>) -> RefP<R> where for<'x> &'x R: RingOps<R> {
    ref_from(p.iter().map(|(x, c)| (x.dense(), c.clone())))
}
fn ref_add<R: RK>(a: &RefP<R>, b: &RefP<R>) -> RefP<R> where for<'x> &'x R: RingOps<R> {
    ref_from(a.iter().chain(b.iter()).map(|(k, c)| (k.clone(), c.clone())))
}
fn ref_neg<R: RK>(a: &RefP<R>) -> RefP<R> where for<'x> &'x R: RingOps<R> {
    a.iter().map(|(k, c)| (k.clone(), -c)).collect()
}
fn ref_smul<R: RK>(a: &RefP<R>, r: &R) -> RefP<R> where for<'x> &'x R: RingOps<R> {
    ref_from(a.iter().map(|(k, c)| (k.clone(), c * r)))
}
fn kadd(a: &[i64], b: &[i64]) -> Vec<i64> {
    let n = a.len().max(b.len());
    trim((0..n).map(|i| a.get(i).copied().unwrap_or(0) + b.get(i).copied().unwrap_or(0)).collect())
}
fn ref_mul<R: RK>(a: &RefP<R>, b: &RefP<R>) -> RefP<R> where for<'x> &'x R: RingOps<R> {
    let mut v = vec![];
    for (k, c) in a { for (l, d) in b { v.push((kadd(k, l), c * d)); } }
    ref_from(v.into_iter())
}
/// graded-lex comparison of exponent vectors: total degree, then lexicographic with index 0 most significant
fn ref_lex(a: &[i64], b: &[i64]) -> Ordering {
    let n = a.len().max(b.len());
    for i in 0..n {
        let (x, y) = (a.get(i).copied().unwrap_or(0), b.get(i).copied().unwrap_or(0));
        if x != y { return x.cmp(&y); }
    }
    Ordering::Equal
}
fn ref_grlex(a: &[i64], b: &[i64]) -> Ordering {
    let (s, t): (i64, i64) = (a.iter().sum(), b.iter().sum());
    s.cmp(&t).then_with(|| ref_lex(a, b))
}

// ---------------------------------------------------------------------------------------------------------
// texts
// ---------------------------------------------------------------------------------------------------------
fn terms_txt<X: MK, R: RK>(p: &PolyBase<X, R>) -> String where for<'x> &'x R: RingOps<R> {
    let mut v: Vec<(Vec<i64>, String)> = p.iter().map(|(x, c)| (x.key(), format!("{}:{}", x.txt(), c.txt()))).collect();
    v.sort();
    if v.is_empty() { "0".into() } else { v.into_iter().map(|t| t.1).collect::<Vec<_>>().join(",") }
}
fn raw_txt<R: RK>(raw: &[(String, R)]) -> String where for<'x> &'x R: RingOps<R> {
    if raw.is_empty() { "0".into() } else { raw.iter().map(|(m, c)| format!("{}:{}", m, c.txt())).collect::<Vec<_>>().join(",") }
}
fn lt_txt<X: MK, R: RK>(p: &PolyBase<X, R>) -> String where for<'x> &'x R: RingOps<R> {
    let (x, c) = p.lead_term();
    format!("{}:{}", x.txt(), c.txt())
}
fn ord_txt(o: Ordering) -> &'static str { match o { Ordering::Less => "lt", Ordering::Equal => "eq", Ordering::Greater => "gt" } }

/// "a value never stores a zero coefficient or zero exponent" + the stored monomials are pairwise different
/// as mathematical monomials
fn invariant_ok<X: MK, R: RK>(p: &PolyBase<X, R>) -> Result<(), String> where for<'x> &'x R: RingOps<R> {
    let mut seen = std::collections::BTreeSet::new();
    for (x, c) in p.iter() {
        if c.is_zero() { return Err(format!("stored zero coefficient at {}", x.txt())); }
        if x.stored_zero_exp() { return Err(format!("stored zero exponent in {}", x.txt())); }
        if !seen.insert(x.dense()) { return Err(format!("monomial {} stored twice", x.txt())); }
    }
    if p.nterms() != seen.len() { return Err(format!("nterms {} != {} iterated terms", p.nterms(), seen.len())); }
    Ok(())
}

// ---------------------------------------------------------------------------------------------------------
// generators of operands (raw term lists handed to `from_iter`)
// ---------------------------------------------------------------------------------------------------------
struct Operand<X: MK, R: RK> where for<'x> &'x R: RingOps<R> {
    p: PolyBase<X, R>,
    txt: String,
}

fn build<X: MK, R: RK>(raw: Vec<(X, String, R)>) -> Operand<X, R> where for<'x> &'x R: RingOps<R> {
    let txt = raw_txt(&raw.iter().map(|(_, t, c)| (t.clone(), c.clone())).collect::<Vec<_>>());
    let p = PolyBase::from_iter(raw.into_iter().map(|(x, _, c)| (x, c)));
    Operand { p, txt }
}

fn rand_raw<X: MK, R: RK>(r: &mut Rng, n: usize) -> Vec<(X, String, R)> where for<'x> &'x R: RingOps<R> {
    (0..n).map(|_| { let (x, t) = X::gen(r); (x, t, R::gen(r)) }).collect()
}

fn one_txt<X: MK>() -> String {
    if X::MULTI { "1".into() } else { vec!["0"; X::NVARS].join(".") }
}

/// cancellation-biased operand relative to the current state
fn gen_operand<X: MK, R: RK>(r: &mut Rng, st: &PolyBase<X, R>, max_terms: usize) -> Operand<X, R>
where for<'x> &'x R: RingOps<R> {
    match r.below(16) {
        0 => build(vec![]),                                                     // 0
        1 => build(vec![(X::one(), one_txt::<X>(), R::one())]),                 // 1
        2 => build(vec![(X::one(), one_txt::<X>(), -R::one())]),                // -1
        3 => build(vec![(X::one(), one_txt::<X>(), R::gen(r))]),                // constant (possibly 0)
        4 => { let (x, t) = X::gen(r); build(vec![(x, t, R::one())]) }          // a monomial
        5 => { let (x, t) = X::gen(r); build(vec![(x, t, R::gen(r))]) }         // a term
        6 | 7 => {                                                              // m ± 1, (x-1)(x+1) style
            let (x, t) = X::gen(r);
            let s = if r.bool() { R::one() } else { -R::one() };
            build(vec![(x, t, R::one()), (X::one(), one_txt::<X>(), s)])
        }
        8 | 9 if st.nterms() <= max_terms => {                                   // the state itself / -state + ε
            let mut raw: Vec<(X, String, R)> = st.iter().map(|(x, c)| (x.clone(), x.txt(), c.clone())).collect();
            raw.sort_by_key(|t| t.0.key());
            if r.bool() { for t in raw.iter_mut() { t.2 = -&t.2; } }
            if r.bool() { raw.extend(rand_raw::<X, R>(r, 1)); }
            r.shuffle(&mut raw);
            build(raw)
        }
        10 => { // a term repeated (summed by from_iter), with explicit zeros
            let (x, t) = X::gen(r);
            let c = R::gen(r);
            let mut raw = vec![(x.clone(), t.clone(), c.clone()), (x.clone(), t.clone(), -&c), (x, t, R::gen(r))];
            raw.extend(rand_raw::<X, R>(r, 2));
            r.shuffle(&mut raw);
            build(raw)
        }
        11 if max_terms >= 12 => { let n = 6 + r.below(max_terms as u64 - 5) as usize; build(rand_raw(r, n)) }
        _ => { let n = 1 + r.below(5) as usize; build(rand_raw(r, n)) }
    }
}

fn mag_of<X: MK, R: RK>(p: &PolyBase<X, R>) -> i64 where for<'x> &'x R: RingOps<R> {
    p.iter().map(|(_, c)| c.mag()).max().unwrap_or(0)
}
fn maxexp_of<X: MK, R: RK>(p: &PolyBase<X, R>) -> i64 where for<'x> &'x R: RingOps<R> {
    p.iter().flat_map(|(x, _)| x.dense()).map(|e| e.abs()).max().unwrap_or(0)
}

fn try_eval<X: MK, R: RK>(p: &PolyBase<X, R>, pt: &[i64]) -> Option<i64> where for<'x> &'x R: RingOps<R> {
    let q = (p as &dyn Any).downcast_ref::<PolyBase<X, i64>>()?;
    X::eval_i64(q, pt)
}
fn ipow(x: i64, e: i64) -> i64 { (0..e).fold(1i64, |a, _| a * x) }
fn ref_eval(a: &RefP<i64>, pt: &[i64]) -> i64 {
    a.iter().map(|(k, c)| c * k.iter().enumerate().map(|(i, &e)| ipow(pt[i], e)).product::<i64>()).sum()
}

// ---------------------------------------------------------------------------------------------------------
// one history on a polynomial
// ---------------------------------------------------------------------------------------------------------
fn history<X: MK, R: RK>(s: &mut Sink, r: &mut Rng, nops: usize, max_terms: usize)
where for<'x> &'x R: RingOps<R> {
    let init = match r.below(6) {
        0 => build(vec![]),
        1 => build::<X, R>(rand_raw(r, max_terms)),
        _ => { let n = 1 + r.below(6) as usize; build::<X, R>(rand_raw(r, n)) }
    };
    let mut req = format!("hist {} {} {}", X::TAG, R::TAG, init.txt);
    let mut st = init.p;
    let mut replies = vec![terms_txt(&st)];
    let mut rf = ref_of(&st);
    let mut changed = 0;
    let clause_op = "operations on polynomials are those of the polynomial ring over the coefficient ring";
    let clause_inv = "a value never stores a zero coefficient or zero exponent (after any sequence of operations)";
    let clause_q = "equality, is_zero, term count, coefficients and leading term are those of the mathematical polynomial";
    if let Err(e) = invariant_ok(&st) { s.oracle(false, clause_inv, &req, &e); }

    for _ in 0..nops {
        if mag_of(&st) > 1_000_000 || st.nterms() > 2 * max_terms + 8 || maxexp_of(&st) > 40 { break; }
        let k = r.below(30);
        let form = r.below(6);
        match k {
            0..=4 | 5..=8 | 9..=14 | 15..=17 => {
                // binary operation with an operand
                let opd = gen_operand(r, &st, max_terms);
                let (name, want): (&str, RefP<R>) = match k {
                    0..=2 => ("add", ref_add(&rf, &ref_of(&opd.p))),
                    3..=4 => ("radd", ref_add(&ref_of(&opd.p), &rf)),
                    5..=6 => ("sub", ref_add(&rf, &ref_neg(&ref_of(&opd.p)))),
                    7..=8 => ("rsub", ref_add(&ref_of(&opd.p), &ref_neg(&rf))),
                    9..=12 => ("mul", ref_mul(&rf, &ref_of(&opd.p))),
                    13..=14 => ("rmul", ref_mul(&ref_of(&opd.p), &rf)),
                    _ => ("lcmul", ref_mul(&rf, &ref_of(&opd.p))),
                };
                let is_mul = k >= 9;
                if is_mul && st.nterms() * opd.p.nterms() > 600 { continue; }
                let p = opd.p;
                let new: PolyBase<X, R> = match (name, form) {
                    ("add", 0) => { let mut t = st.clone(); t += &p; t }
                    ("add", 1) => { let mut t = st.clone(); t += p.clone(); t }
                    ("add", 2) => &st + &p,
                    ("add", 3) => st.clone() + p.clone(),
                    ("add", 4) => st.clone() + &p,
                    ("add", _) => &st + p.clone(),
                    ("radd", 0) => { let mut t = p.clone(); t += &st; t }
                    ("radd", 1) => { let mut t = p.clone(); t += st.clone(); t }
                    ("radd", 2) => &p + &st,
                    ("radd", 3) => p.clone() + st.clone(),
                    ("radd", 4) => p.clone() + &st,
                    ("radd", _) => &p + st.clone(),
                    ("sub", 0) => { let mut t = st.clone(); t -= &p; t }
                    ("sub", 1) => { let mut t = st.clone(); t -= p.clone(); t }
                    ("sub", 2) => &st - &p,
                    ("sub", 3) => st.clone() - p.clone(),
                    ("sub", 4) => st.clone() - &p,
                    ("sub", _) => &st - p.clone(),
                    ("rsub", 0) => { let mut t = p.clone(); t -= &st; t }
                    ("rsub", 1) => { let mut t = p.clone(); t -= st.clone(); t }
                    ("rsub", 2) => &p - &st,
                    ("rsub", 3) => p.clone() - st.clone(),
                    ("rsub", 4) => p.clone() - &st,
                    ("rsub", _) => &p - st.clone(),
                    ("mul", 0) => { let mut t = st.clone(); t *= &p; t }
                    ("mul", 1) => { let mut t = st.clone(); t *= p.clone(); t }
                    ("mul", 2) => &st * &p,
                    ("mul", 3) => st.clone() * p.clone(),
                    ("mul", 4) => st.clone() * &p,
                    ("mul", _) => &st * p.clone(),
                    ("rmul", 0) => { let mut t = p.clone(); t *= &st; t }
                    ("rmul", 1) => { let mut t = p.clone(); t *= st.clone(); t }
                    ("rmul", 2) => &p * &st,
                    ("rmul", 3) => p.clone() * st.clone(),
                    ("rmul", 4) => p.clone() * &st,
                    ("rmul", _) => &p * st.clone(),
                    _ => PolyBase::from(st.inner() * p.inner()),    // lcmul: `&Lc * &Lc`, the general product
                };
                req.push_str(&format!(" {}{}={}", name, form, opd.txt));
                s.count(&format!("op.{}", name));
                if p.is_zero() { s.count("operand.zero"); }
                if p.is_one() { s.count("operand.one"); }
                if !p.is_zero() && p.is_const() { s.count("operand.const"); }
                if new.is_zero() && !st.is_zero() { s.count("result.cancelled-to-zero"); }
                if is_mul && new.nterms() < st.nterms() * p.nterms() { s.count("result.product-with-merging"); }
                st = new;
                let got = ref_of(&st);
                s.oracle(got == want, clause_op, &req, &format!("state {}", terms_txt(&st)));
                rf = want;
                changed += 1;
                replies.push(terms_txt(&st));
            }
            18..=19 => {
                let c = match r.below(5) { 0 => R::zero(), 1 => R::one(), 2 => R::from_i(3), _ => R::gen(r) };
                let new = match form {
                    0 => { let mut t = st.clone(); t *= &c; t }
                    1 => { let mut t = st.clone(); t *= c.clone(); t }
                    2 => &st * &c,
                    3 => st.clone() * c.clone(),
                    4 => st.clone() * &c,
                    _ => &st * c.clone(),
                };
                req.push_str(&format!(" smul{}={}", form, c.txt()));
                s.count("op.smul");
                st = new;
                let want = ref_smul(&rf, &c);
                s.oracle(ref_of(&st) == want, clause_op, &req, &format!("state {}", terms_txt(&st)));
                rf = want;
                changed += 1;
                replies.push(terms_txt(&st));
            }
            20 => {
                let new = if form % 2 == 0 { -&st } else { -(st.clone()) };
                req.push_str(&format!(" neg{}", form % 2));
                s.count("op.neg");
                st = new;
                let want = ref_neg(&rf);
                s.oracle(ref_of(&st) == want, clause_op, &req, &format!("state {}", terms_txt(&st)));
                rf = want;
                changed += 1;
                replies.push(terms_txt(&st));
            }
            21 => {
                let c = if r.chance(1, 4) { R::from_i(3) } else { R::gen(r) };
                let new = st.map_coeffs(|x| x * &c);
                req.push_str(&format!(" mapc={}", c.txt()));
                s.count("op.map_coeffs");
                st = new;
                let want = ref_smul(&rf, &c);
                s.oracle(ref_of(&st) == want, clause_op, &req, &format!("state {}", terms_txt(&st)));
                rf = want;
                replies.push(terms_txt(&st));
            }
            22 => { req.push_str(" nt"); s.count("q.nterms");
                s.oracle(st.nterms() == rf.len(), clause_q, &req, &format!("nterms {} vs {}", st.nterms(), rf.len()));
                replies.push(st.nterms().to_string()); }
            23 => { req.push_str(" iz"); s.count("q.is_zero");
                s.oracle(st.is_zero() == rf.is_empty(), clause_q, &req, "is_zero");
                replies.push(st.is_zero().to_string()); }
            24 => {
                // coefficient at a stored monomial (mostly) or a random one
                let (m, t) = if r.bool() && !st.is_zero() {
                    let mut ms: Vec<X> = st.iter().map(|(x, _)| x.clone()).collect();
                    ms.sort_by_key(|x| x.key());
                    let x = r.pick(&ms).clone(); let t = x.txt(); (x, t)
                } else { X::gen(r) };
                req.push_str(&format!(" co={}", t)); s.count("q.coeff");
                let c = st.coeff(&m).clone();
                let want = rf.get(&m.dense()).cloned().unwrap_or_else(R::zero);
                s.oracle(c == want, clause_q, &req, &format!("coeff {} vs {}", c.txt(), want.txt()));
                replies.push(c.txt());
            }
            25 => {
                req.push_str(" lt"); s.count("q.lead_term");
                if st.is_zero() { s.count("q.lead_term.zero"); }
                let (x, c) = st.lead_term();
                let want = rf.iter().max_by(|a, b| ref_grlex(a.0, b.0));
                let ok = match want {
                    Some((k, d)) => &x.dense() == k && c == d,
                    None => x.dense().is_empty() && c.is_zero(),
                };
                s.oracle(ok, clause_q, &req, &format!("lead term {}:{}", x.txt(), c.txt()));
                replies.push(format!("{}:{}", x.txt(), c.txt()));
            }
            26 => {
                // equality with: the same value rebuilt from its terms in another order / a perturbation / random
                let opd: Operand<X, R> = match r.below(3) {
                    0 => { let mut raw: Vec<(X, String, R)> = st.iter().map(|(x, c)| (x.clone(), x.txt(), c.clone())).collect();
                           raw.sort_by_key(|t| t.0.key()); r.shuffle(&mut raw); build(raw) }
                    1 => { let mut raw: Vec<(X, String, R)> = st.iter().map(|(x, c)| (x.clone(), x.txt(), c.clone())).collect();
                           raw.sort_by_key(|t| t.0.key()); raw.extend(rand_raw::<X, R>(r, 1)); build(raw) }
                    _ => gen_operand(r, &st, max_terms),
                };
                req.push_str(&format!(" eq={}", opd.txt)); s.count("q.eq");
                let e = st == opd.p;
                s.oracle(e == (rf == ref_of(&opd.p)), clause_q, &req, &format!("== gives {}", e));
                s.oracle(e == (terms_txt(&st) == terms_txt(&opd.p)), "two values are equal iff they have the same sorted term list", &req, &format!("== gives {}", e));
                replies.push(e.to_string());
            }
            27 => { req.push_str(" ic io ct im"); s.count("q.const");
                let is_c = rf.keys().all(|k| k.is_empty());
                s.oracle(st.is_const() == is_c, clause_q, &req, "is_const");
                let one = rf.len() == 1 && rf.get(&vec![]).map(|c| c.is_one()).unwrap_or(false);
                s.oracle(st.is_one() == one, clause_q, &req, "is_one");
                replies.push(st.is_const().to_string()); replies.push(st.is_one().to_string());
                replies.push(st.const_term().txt()); replies.push(st.is_mono().to_string()); }
            29 => {
                // `pow(n)`: repeated `*=` starting from `one()`
                let n = r.below(4) as usize;
                if st.nterms().pow(n as u32) > 300 || mag_of(&st).pow(n as u32) > 1_000_000 || maxexp_of(&st) * (n as i64) > 40 { continue; }
                use num_traits::Pow;
                let new = (&st).pow(n);
                let mut want: RefP<R> = BTreeMap::new();
                want.insert(vec![], R::one());
                let want0 = ref_norm(want);
                let want = (0..n).fold(want0, |acc, _| ref_mul(&acc, &rf));
                req.push_str(&format!(" pow={}", n));
                s.count("op.pow");
                st = new;
                s.oracle(ref_of(&st) == want, clause_op, &req, &format!("state {}", terms_txt(&st)));
                rf = want;
                changed += 1;
                replies.push(terms_txt(&st));
            }
            _ => {
                // eval (only `i64` coefficients and `usize` exponents have `Pow`)
                if X::NVARS == 0 || X::LAURENT || R::TAG != "z" { continue; }
                let big = maxexp_of(&st) > 8;
                let pt: Vec<i64> = (0..X::NVARS).map(|_| if big { r.range(-1, 1) } else { r.range(-2, 2) }).collect();
                if let Some(v) = try_eval(&st, &pt) {
                    req.push_str(&format!(" ev={}", pt.iter().map(|x| x.to_string()).collect::<Vec<_>>().join("|")));
                    s.count("q.eval");
                    let rz = (&rf as &dyn Any).downcast_ref::<RefP<i64>>().unwrap();
                    s.oracle(v == ref_eval(rz, &pt), "evaluation at a point is the value of the mathematical polynomial", &req, &format!("eval {}", v));
                    replies.push(v.to_string());
                }
            }
        }
        if let Err(e) = invariant_ok(&st) { s.oracle(false, clause_inv, &req, &e); }
    }
    s.count(&format!("type.{}", X::TAG));
    s.count(&format!("ring.{}", R::TAG));
    s.count(&format!("hist.len.{:02}", (replies.len() - 1).min(40) / 5 * 5));
    s.case(&req, &replies.join(";"), changed > 0);
}

// ---------------------------------------------------------------------------------------------------------
// ring axioms / eval homomorphism on generated triples
// ---------------------------------------------------------------------------------------------------------
fn same<X: MK, R: RK>(a: &PolyBase<X, R>, b: &PolyBase<X, R>) -> bool where for<'x> &'x R: RingOps<R> {
    a == b && terms_txt(a) == terms_txt(b)
}

fn axioms<X: MK, R: RK>(s: &mut Sink, r: &mut Rng, nt: usize) where for<'x> &'x R: RingOps<R> {
    let gen = |r: &mut Rng| -> Operand<X, R> {
        let z = PolyBase::<X, R>::zero();
        if r.chance(1, 3) { let n = 1 + r.below(nt as u64) as usize; build(rand_raw(r, n)) } else { gen_operand(r, &z, nt) }
    };
    let (f, g, h) = (gen(r), gen(r), gen(r));
    let c = R::gen(r);
    let inp = format!("{} {} f={} g={} h={} c={}", X::TAG, R::TAG, f.txt, g.txt, h.txt, c.txt());
    let (f, g, h) = (f.p, g.p, h.p);
    let zero = PolyBase::<X, R>::zero();
    let one = PolyBase::<X, R>::one();
    let cl = "ring axioms hold";
    let mut chk = |ok: bool, what: &str| s.oracle(ok, cl, &inp, what);
    chk(same(&(&f + &g), &(&g + &f)), "f+g = g+f");
    chk(same(&(&(&f + &g) + &h), &(&f + &(&g + &h))), "(f+g)+h = f+(g+h)");
    chk(same(&(&f + &zero), &f) && same(&(&zero + &f), &f), "f+0 = f");
    chk((&f + &(-&f)).is_zero() && (&f - &f).is_zero(), "f+(-f) = 0");
    chk(same(&(&f - &g), &(&f + &(-&g))), "f-g = f+(-g)");
    chk(same(&(&f * &g), &(&g * &f)), "f*g = g*f");
    chk(same(&(&(&f * &g) * &h), &(&f * &(&g * &h))), "(f*g)*h = f*(g*h)");
    chk(same(&(&f * &one), &f) && same(&(&one * &f), &f), "f*1 = f");
    chk((&f * &zero).is_zero() && (&zero * &f).is_zero(), "f*0 = 0");
    chk(same(&(&f * &(&g + &h)), &(&(&f * &g) + &(&f * &h))), "f*(g+h) = f*g+f*h");
    chk(same(&(&(&f + &g) * &h), &(&(&f * &h) + &(&g * &h))), "(f+g)*h = f*h+g*h");
    chk(same(&(&f * &c), &(&f * &PolyBase::<X, R>::from_const(c.clone()))), "c.f = const(c)*f");
    chk(same(&(&PolyBase::<X, R>::from_const(c.clone()) * &f), &(&f * &c)), "const(c)*f = c.f");
    chk(same(&(&f * &g), &PolyBase::from(f.inner() * g.inner())), "*= special cases agree with the general product");
    for p in [&f, &g, &(&f * &g), &(&f + &g)] {
        if let Err(e) = invariant_ok(p) { s.oracle(false, "a value never stores a zero coefficient or zero exponent (after any sequence of operations)", &inp, &e); }
    }
    // evaluation is a ring homomorphism
    if X::NVARS > 0 && !X::LAURENT && R::TAG == "z" {
        let pt: Vec<i64> = (0..X::NVARS).map(|_| r.range(-2, 2)).collect();
        let ev = |p: &PolyBase<X, R>| try_eval(p, &pt).unwrap();
        let cl = "evaluation at any point is a ring homomorphism";
        let inp = format!("{} at {:?}", inp, pt);
        s.oracle(ev(&(&f + &g)) == ev(&f) + ev(&g), cl, &inp, "eval(f+g)");
        s.oracle(ev(&(&f * &g)) == ev(&f) * ev(&g), cl, &inp, "eval(f*g)");
        s.oracle(ev(&(&f - &g)) == ev(&f) - ev(&g), cl, &inp, "eval(f-g)");
        s.oracle(ev(&one) == 1 && ev(&zero) == 0, cl, &inp, "eval(1), eval(0)");
        s.count("axioms.eval-hom");
    }
    s.count("axioms.triple");
    s.eval_only(&format!("axioms {}", inp), !f.is_zero() && !g.is_zero());
}

// ---------------------------------------------------------------------------------------------------------
// monomial orders
// ---------------------------------------------------------------------------------------------------------
fn order_laws<X: MK>(s: &mut Sink, a: &(X, String), b: &(X, String), c: &(X, String)) {
    let inp = format!("{} a={} b={} c={}", X::TAG, a.1, b.1, c.1);
    let cl = "lex and graded lex are total orders compatible with multiplication";
    let (a, b, c) = (&a.0, &b.0, &c.0);
    for (nm, cmp) in [("lex", X::cmp_lex as fn(&X, &X) -> Ordering), ("grlex", X::cmp_grlex as fn(&X, &X) -> Ordering)] {
        s.oracle(cmp(a, b) == cmp(b, a).reverse(), cl, &inp, &format!("{}: cmp(a,b) = reverse cmp(b,a)", nm));
        s.oracle((cmp(a, b) == Ordering::Equal) == (a == b), cl, &inp, &format!("{}: Equal iff equal", nm));
        s.oracle((cmp(a, b) == Ordering::Equal) == (a.dense() == b.dense()), cl, &inp, &format!("{}: Equal iff same monomial", nm));
        s.oracle(cmp(a, a) == Ordering::Equal, cl, &inp, &format!("{}: reflexive", nm));
        if cmp(a, b) != Ordering::Greater && cmp(b, c) != Ordering::Greater {
            s.oracle(cmp(a, c) != Ordering::Greater, cl, &inp, &format!("{}: transitive", nm));
            if cmp(a, b) == Ordering::Less || cmp(b, c) == Ordering::Less {
                s.oracle(cmp(a, c) == Ordering::Less, cl, &inp, &format!("{}: strictly transitive", nm));
            }
        }
        let (ac, bc) = (a.clone() * c.clone(), b.clone() * c.clone());
        s.oracle(cmp(&ac, &bc) == cmp(a, b), cl, &inp, &format!("{}: cmp(ac, bc) = cmp(a, b)", nm));
        s.oracle(!ac.stored_zero_exp() && ac.dense() == kadd(&a.dense(), &c.dense()), "monomial product adds exponents and stores no zero exponent", &inp, &ac.txt());
        if !X::LAURENT { s.oracle(cmp(&X::one(), a) != Ordering::Greater, cl, &inp, &format!("{}: 1 is least", nm)); }
    }
    let want_lex = ref_lex(&a.dense(), &b.dense());
    s.oracle(X::cmp_lex(a, b) == want_lex, "cmp_lex is the lexicographic order of exponent vectors (x0 > x1 > …)", &inp, ord_txt(X::cmp_lex(a, b)));
    s.oracle(X::cmp_grlex(a, b) == ref_grlex(&a.dense(), &b.dense()), "cmp_grlex is the graded lexicographic order", &inp, ord_txt(X::cmp_grlex(a, b)));
}

fn mono_cases<X: MK>(s: &mut Sink, r: &mut Rng, n: usize) {
    for _ in 0..n {
        let (a, b, c) = (X::gen(r), if r.chance(1, 5) { X::gen(r) } else { X::gen(r) }, X::gen(r));
        let b = if r.chance(1, 6) { a.clone() } else { b };
        order_laws(s, &a, &b, &c);
        s.case(&format!("mono {} cmp {} {}", X::TAG, a.1, b.1),
            &format!("{} {}", ord_txt(X::cmp_lex(&a.0, &b.0)), ord_txt(X::cmp_grlex(&a.0, &b.0))), true);
        let ab = a.0.clone() * b.0.clone();
        s.case(&format!("mono {} mul {} {}", X::TAG, a.1, b.1), &ab.txt(), true);
        s.case(&format!("mono {} id {}", X::TAG, c.1), &c.0.txt(), true);
        s.count(&format!("mono.{}", X::TAG));
    }
    s.case(&format!("mono {} one", X::TAG), &X::one().txt(), false);
}

/// `MultiDeg` constructors, subtraction (usize underflow panics), negation, total degree
fn mdeg_cases(s: &mut Sink, r: &mut Rng, n: usize) {
    let cl = "multi-degree arithmetic is exponent-vector arithmetic and stores no zero exponent";
    for _ in 0..n {
        // usize
        let pa: Vec<(usize, usize)> = gen_pairs(r, false).into_iter().map(|(i, e)| (i, e as usize)).collect();
        let pb: Vec<(usize, usize)> = if r.chance(1, 4) { pa.clone() } else { gen_pairs(r, false).into_iter().map(|(i, e)| (i, e as usize)).collect() };
        let (a, b) = (MultiDeg::<usize>::from_iter(pa.clone()), MultiDeg::<usize>::from_iter(pb.clone()));
        let req = format!("mono pn sub {} {}", pairs_txt(&pa), pairs_txt(&pb));
        let (da, db) = (dense_i(&a), dense_i(&b));
        let n = da.len().max(db.len());
        let diff: Vec<i64> = (0..n).map(|i| da.get(i).copied().unwrap_or(0) - db.get(i).copied().unwrap_or(0)).collect();
        match guard(|| a.clone() - b.clone()) {
            Some(d) => {
                s.oracle(diff.iter().all(|&e| e >= 0) && dense_i(&d) == trim(diff.clone()) && !d.iter().any(|(_, e)| *e == 0), cl, &req, &pairs_txt(&mdeg_pairs(&d)));
                s.case(&req, &pairs_txt(&mdeg_pairs(&d)), true);
                s.count("mdeg.sub.ok");
            }
            None => {
                s.oracle(diff.iter().any(|&e| e < 0), "usize multi-degree subtraction panics only on underflow", &req, "panic");
                s.case(&req, "panic", true);
                s.count("mdeg.sub.panic");
            }
        }
        s.case(&format!("mono pn tot {}", pairs_txt(&pa)), &a.total().to_string(), true);
        s.oracle(a.total() as i64 == da.iter().sum::<i64>(), cl, &req, "total");
        let arr = [uexp(r), uexp(r), uexp(r), uexp(r)];
        let d = MultiDeg::<usize>::from(arr);
        s.oracle(!d.iter().any(|(_, e)| *e == 0) && dense_i(&d) == trim(arr.iter().map(|&e| e as i64).collect()), cl, &format!("MultiDeg::from({:?})", arr), "from array");
        s.case(&format!("mono pn arr {}", arr.iter().map(|e| e.to_string()).collect::<Vec<_>>().join(".")), &pairs_txt(&mdeg_pairs(&d)), true);

        // isize
        let pa: Vec<(usize, isize)> = gen_pairs(r, true).into_iter().map(|(i, e)| (i, e as isize)).collect();
        let pb: Vec<(usize, isize)> = if r.chance(1, 4) { pa.clone() } else { gen_pairs(r, true).into_iter().map(|(i, e)| (i, e as isize)).collect() };
        let (a, b) = (MultiDeg::<isize>::from_iter(pa.clone()), MultiDeg::<isize>::from_iter(pb.clone()));
        let (da, db) = (dense_s(&a), dense_s(&b));
        let n = da.len().max(db.len());
        let diff: Vec<i64> = (0..n).map(|i| da.get(i).copied().unwrap_or(0) - db.get(i).copied().unwrap_or(0)).collect();
        let d = a.clone() - b.clone();
        let req = format!("mono ln sub {} {}", pairs_txt(&pa), pairs_txt(&pb));
        s.oracle(dense_s(&d) == trim(diff) && !d.iter().any(|(_, e)| *e == 0), cl, &req, &pairs_txt(&mdeg_pairs(&d)));
        s.case(&req, &pairs_txt(&mdeg_pairs(&d)), true);
        let ng = -&a;
        let req = format!("mono ln neg {}", pairs_txt(&pa));
        s.oracle(dense_s(&ng) == da.iter().map(|e| -e).collect::<Vec<_>>() && !ng.iter().any(|(_, e)| *e == 0), cl, &req, "neg");
        s.case(&req, &pairs_txt(&mdeg_pairs(&ng)), true);
        s.case(&format!("mono ln tot {}", pairs_txt(&pa)), &a.total().to_string(), true);
        let arr = [iexp(r), iexp(r), iexp(r)];
        let d = MultiDeg::<isize>::from(arr);
        s.oracle(!d.iter().any(|(_, e)| *e == 0) && dense_s(&d) == trim(arr.iter().map(|&e| e as i64).collect()), cl, &format!("MultiDeg::from({:?})", arr), "from array");
        s.case(&format!("mono ln arr {}", arr.iter().map(|e| e.to_string()).collect::<Vec<_>>().join(".")), &pairs_txt(&mdeg_pairs(&d)), true);
        s.count("mdeg.case");
    }
}
fn dense_i(d: &MultiDeg<usize>) -> Vec<i64> { dense_of(&d.iter().map(|(&i, &e)| (i, e as i64)).collect::<Vec<_>>()) }
fn dense_s(d: &MultiDeg<isize>) -> Vec<i64> { dense_of(&d.iter().map(|(&i, &e)| (i, e as i64)).collect::<Vec<_>>()) }

// ---------------------------------------------------------------------------------------------------------
// Lc over free generators
// ---------------------------------------------------------------------------------------------------------
type G = Free<i64>;
type RefL<R> = BTreeMap<i64, R>;

fn lc_txt<R: RK>(a: &Lc<G, R>) -> String where for<'x> &'x R: RingOps<R> {
    let mut v: Vec<(i64, String)> = a.iter().map(|(x, c)| (x.0, format!("{}:{}", x.0, c.txt()))).collect();
    v.sort();
    if v.is_empty() { "0".into() } else { v.into_iter().map(|t| t.1).collect::<Vec<_>>().join(",") }
}
fn lc_ref<R: RK>(it: impl Iterator<Item = (i64, R)>) -> RefL<R> where for<'x> &'x R: RingOps<R> {
    let mut m: RefL<R> = BTreeMap::new();
    for (k, c) in it { let e = m.entry(k).or_insert_with(R::zero); *e = &*e + &c; }
    m.retain(|_, c| !c.is_zero());
    m
}
fn lc_ref_of<R: RK>(a: &Lc<G, R>) -> RefL<R> where for<'x> &'x R: RingOps<R> { lc_ref(a.iter().map(|(x, c)| (x.0, c.clone()))) }
fn lc_raw<R: RK>(r: &mut Rng, n: usize) -> Vec<(i64, R)> where for<'x> &'x R: RingOps<R> {
    (0..n).map(|_| (r.range(-3, 4), R::gen(r))).collect()
}
fn lc_build<R: RK>(raw: Vec<(i64, R)>) -> (Lc<G, R>, String) where for<'x> &'x R: RingOps<R> {
    let t = raw_txt(&raw.iter().map(|(x, c)| (x.to_string(), c.clone())).collect::<Vec<_>>());
    (Lc::from_iter(raw.into_iter().map(|(x, c)| (Free(x), c))), t)
}
fn lc_invariant<R: RK>(a: &Lc<G, R>) -> bool where for<'x> &'x R: RingOps<R> {
    let mut ks: Vec<i64> = a.iter().map(|(x, _)| x.0).collect();
    ks.sort(); let n = ks.len(); ks.dedup();
    a.iter().all(|(_, c)| !c.is_zero()) && ks.len() == n && a.nterms() == n
}

fn lc_history<R: RK>(s: &mut Sink, r: &mut Rng, nops: usize, max_terms: usize) where for<'x> &'x R: RingOps<R> {
    let n0 = r.below(max_terms as u64 + 1) as usize;
    let (mut st, t) = lc_build::<R>(lc_raw(r, n0));
    let mut req = format!("hist lc {} {}", R::TAG, t);
    let mut replies = vec![lc_txt(&st)];
    let mut rf = lc_ref_of(&st);
    let cl = "operations on linear combinations are those of the free module on the generators";
    let cl_inv = "a value never stores a zero coefficient or zero exponent (after any sequence of operations)";
    for _ in 0..nops {
        if st.iter().map(|(_, c)| c.mag()).max().unwrap_or(0) > 1_000_000 { break; }
        if st.iter().map(|(x, _)| x.0.abs()).max().unwrap_or(0) > 1_000_000 { break; }
        let form = r.below(6);
        let operand = |r: &mut Rng, st: &Lc<G, R>| -> (Lc<G, R>, String) {
            match r.below(5) {
                0 => { let mut raw: Vec<(i64, R)> = st.iter().map(|(x, c)| (x.0, -c)).collect(); raw.sort_by_key(|t| t.0);
                       if r.bool() { raw.extend(lc_raw::<R>(r, 1)); } r.shuffle(&mut raw); lc_build(raw) }
                1 => { let mut raw: Vec<(i64, R)> = st.iter().map(|(x, c)| (x.0, c.clone())).collect(); raw.sort_by_key(|t| t.0); lc_build(raw) }
                2 => lc_build(vec![]),
                _ => { let n = 1 + r.below(6) as usize; lc_build(lc_raw(r, n)) }
            }
        };
        let mut want: Option<RefL<R>> = None;
        match r.below(16) {
            0 | 1 => { let (p, t) = operand(r, &st);
                want = Some(lc_ref(rf.iter().chain(lc_ref_of(&p).iter()).map(|(k, c)| (*k, c.clone()))));
                st = match form { 0 => { let mut u = st.clone(); u += &p; u } 1 => { let mut u = st.clone(); u += p.clone(); u }
                    2 => &st + &p, 3 => st.clone() + p.clone(), 4 => st.clone() + &p, _ => &st + p.clone() };
                req.push_str(&format!(" add{}={}", form, t)); s.count("lc.add"); }
            2 | 3 => { let (p, t) = operand(r, &st);
                want = Some(lc_ref(rf.iter().map(|(k, c)| (*k, c.clone())).chain(lc_ref_of(&p).iter().map(|(k, c)| (*k, -c)))));
                st = match form { 0 => { let mut u = st.clone(); u -= &p; u } 1 => { let mut u = st.clone(); u -= p.clone(); u }
                    2 => &st - &p, 3 => st.clone() - p.clone(), 4 => st.clone() - &p, _ => &st - p.clone() };
                req.push_str(&format!(" sub{}={}", form, t)); s.count("lc.sub"); }
            4 => { let (p, t) = operand(r, &st);
                want = Some(lc_ref(lc_ref_of(&p).iter().map(|(k, c)| (*k, c.clone())).chain(rf.iter().map(|(k, c)| (*k, -c)))));
                st = if form % 2 == 0 { &p - &st } else { p.clone() - st.clone() };
                req.push_str(&format!(" rsub{}={}", form, t)); s.count("lc.rsub"); }
            5 | 6 => { let c = match r.below(5) { 0 => R::zero(), 1 => R::one(), 2 => R::from_i(3), _ => R::gen(r) };
                want = Some(lc_ref(rf.iter().map(|(k, d)| (*k, d * &c))));
                st = match form { 0 => { let mut u = st.clone(); u *= &c; u } 1 => { let mut u = st.clone(); u *= c.clone(); u }
                    2 => &st * &c, 3 => st.clone() * c.clone(), 4 => st.clone() * &c, _ => &st * c.clone() };
                req.push_str(&format!(" smul{}={}", form, c.txt())); s.count("lc.smul"); }
            7 => { want = Some(rf.iter().map(|(k, c)| (*k, -c)).collect());
                st = if form % 2 == 0 { -&st } else { -(st.clone()) };
                req.push_str(&format!(" neg{}", form % 2)); s.count("lc.neg"); }
            8 => { let k = 1 + r.below(3) as i64;
                want = Some(lc_ref(rf.iter().map(|(x, c)| (x.rem_euclid(k), c.clone()))));
                st = if form % 2 == 0 { st.map_gens(|x| Free(x.0.rem_euclid(k))) } else { st.clone().into_map_gens(|x| Free(x.0.rem_euclid(k))) };
                req.push_str(&format!(" mapg={}", k)); s.count("lc.map_gens"); }
            9 => { let c = if r.chance(1, 3) { R::from_i(3) } else { R::gen(r) };
                want = Some(lc_ref(rf.iter().map(|(x, d)| (*x, d * &c))));
                st = if form % 2 == 0 { st.map_coeffs(|d| d * &c) } else { st.clone().into_map_coeffs(|d| &d * &c) };
                req.push_str(&format!(" mapc={}", c.txt())); s.count("lc.map_coeffs"); }
            10 => { let k = r.below(2) as i64;
                want = Some(rf.iter().filter(|(x, _)| x.rem_euclid(2) == k).map(|(x, c)| (*x, c.clone())).collect());
                st = if form % 2 == 0 { st.filter_gens(|x| x.0.rem_euclid(2) == k) } else { st.clone().into_filter_gens(|x| x.0.rem_euclid(2) == k) };
                req.push_str(&format!(" filt={}", k)); s.count("lc.filter_gens"); }
            11 => { let k = r.range(-2, 2);
                want = Some(lc_ref(rf.iter().flat_map(|(x, c)| [(*x, c.clone()), (*x + k, -c)])));
                st = st.apply(|x| Lc::from_iter([(Free(x.0), R::one()), (Free(x.0 + k), -R::one())]));
                req.push_str(&format!(" app={}", k)); s.count("lc.apply"); }
            12 => { let (p, t) = operand(r, &st);
                if st.nterms() * p.nterms() > 400 { continue; }
                let rp = lc_ref_of(&p);
                want = Some(lc_ref(rf.iter().flat_map(|(x, c)| rp.iter().map(move |(y, d)| (*x + *y, c * d)))));
                st = st.combine(&p, |x, y| Free(x.0 + y.0));
                req.push_str(&format!(" comb={}", t)); s.count("lc.combine"); }
            13 => { req.push_str(" nt iz im"); s.count("lc.q");
                s.oracle(st.nterms() == rf.len() && st.is_zero() == rf.is_empty(), "nterms and is_zero are those of the denoted element", &req, "");
                replies.push(st.nterms().to_string()); replies.push(st.is_zero().to_string()); replies.push(st.is_gen().to_string()); continue; }
            14 => { let x = r.range(-3, 4); req.push_str(&format!(" co={}", x)); s.count("lc.q");
                let c = st.coeff(&Free(x)).clone();
                s.oracle(c == rf.get(&x).cloned().unwrap_or_else(R::zero), "coeff is that of the denoted element", &req, &c.txt());
                replies.push(c.txt()); continue; }
            _ => { let (p, t) = operand(r, &st); req.push_str(&format!(" eq={}", t)); s.count("lc.q");
                let e = st == p;
                s.oracle(e == (rf == lc_ref_of(&p)) && e == (lc_txt(&st) == lc_txt(&p)), "two values are equal iff they have the same sorted term list", &req, &e.to_string());
                replies.push(e.to_string()); continue; }
        }
        let want = want.unwrap();
        s.oracle(lc_ref_of(&st) == want, cl, &req, &lc_txt(&st));
        s.oracle(lc_invariant(&st), cl_inv, &req, &lc_txt(&st));
        rf = want;
        replies.push(lc_txt(&st));
    }
    s.count(&format!("ring.{}", R::TAG));
    s.count("type.lc");
    s.case(&req, &replies.join(";"), replies.len() > 1);
}

// ---------------------------------------------------------------------------------------------------------
// HPoly
// ---------------------------------------------------------------------------------------------------------
fn hp_txt<R: RK>(a: &HPoly<'x', R>) -> String where for<'x> &'x R: RingOps<R> {
    if a.is_zero() { "0".into() } else { format!("{}:{}", a.deg(), a.coeff().txt()) }
}
fn hp_gen<R: RK>(r: &mut Rng) -> (HPoly<'x', R>, String) where for<'x> &'x R: RingOps<R> {
    let d = *r.pick(&[0usize, 0, 1, 1, 2, 3]);
    let c = R::gen(r);
    (HPoly::new(d, c.clone()), format!("{}:{}", d, c.txt()))
}
fn hp_history<R: RK + Copy>(s: &mut Sink, r: &mut Rng, nops: usize) where for<'x> &'x R: RingOps<R> {
    let (mut st, t) = hp_gen::<R>(r);
    let mut req = format!("hp {} {}", R::TAG, t);
    let mut replies = vec![hp_txt(&st)];
    let cl = "homogeneous polynomials add and multiply as the monomials c·X^d they denote";
    for _ in 0..nops {
        if st.coeff().mag() > 1_000_000 { break; }
        let form = r.below(4);
        let (p, t) = if r.chance(3, 4) { (HPoly::new(st.deg(), R::gen(r)), String::new()) } else { hp_gen::<R>(r) };
        let t = if t.is_empty() { format!("{}:{}", p.deg(), p.coeff().txt()) } else { t };
        let k = r.below(11);
        let res: Option<HPoly<'x', R>> = match k {
            0 | 1 => { req.push_str(&format!(" add{}={}", form, t)); s.count("hp.add");
                guard(|| match form { 0 => { let mut u = st; u += &p; u } 1 => st + p, 2 => &st + &p, _ => st + &p }) }
            2 => { req.push_str(&format!(" radd{}={}", form, t)); s.count("hp.add"); guard(|| &p + &st) }
            3 => { req.push_str(&format!(" sub{}={}", form, t)); s.count("hp.sub");
                guard(|| match form { 0 => { let mut u = st; u -= &p; u } 1 => st - p, 2 => &st - &p, _ => st - &p }) }
            4 => { req.push_str(&format!(" rsub{}={}", form, t)); s.count("hp.sub"); guard(|| &p - &st) }
            5 | 6 => { req.push_str(&format!(" mul{}={}", form, t)); s.count("hp.mul");
                let q = match form { 0 => { let mut u = st; u *= &p; u } 1 => st * p, 2 => &st * &p, _ => st * &p };
                s.oracle(q.is_zero() == (st.is_zero() || p.is_zero() || (st.coeff() * p.coeff()).is_zero()), cl, &req, "zero product");
                if !q.is_zero() { s.oracle(q.deg() == st.deg() + p.deg() && q.coeff() == &(st.coeff() * p.coeff()), cl, &req, "product"); }
                s.oracle(q == &p * &st, cl, &req, "commutative");
                Some(q) }
            7 => { req.push_str(&format!(" rmul{}={}", form, t)); s.count("hp.mul"); Some(&p * &st) }
            8 => { let c = R::gen(r); req.push_str(&format!(" smul{}={}", form, c.txt())); s.count("hp.smul");
                Some(if form % 2 == 0 { &st * &c } else { let mut u = st; u *= c; u }) }
            9 => { req.push_str(&format!(" neg{}", form)); s.count("hp.neg"); Some(if form % 2 == 0 { -&st } else { -st }) }
            _ => { req.push_str(&format!(" iz io eq={}", t)); s.count("hp.q");
                let e = st == p;
                s.oracle(e == (hp_txt(&st) == hp_txt(&p)), "two values are equal iff they denote the same polynomial", &req, &e.to_string());
                replies.push(st.is_zero().to_string()); replies.push(st.is_one().to_string()); replies.push(e.to_string()); continue; }
        };
        match res {
            Some(q) => {
                if k <= 4 {
                    // sum of two homogeneous terms of the same degree (or with a zero summand)
                    let sgn_p = if k == 3 { -&p } else { p };
                    let (a, b) = if k == 4 { (p, -&st) } else { (st, sgn_p) };
                    let ok = if a.is_zero() { q == b } else if b.is_zero() { q == a } else {
                        a.deg() == b.deg() && (q.is_zero() || q.deg() == a.deg()) && q.coeff() == &(a.coeff() + b.coeff()) };
                    s.oracle(ok, cl, &req, &hp_txt(&q));
                }
                st = q; replies.push(hp_txt(&st));
            }
            None => {
                s.oracle(!st.is_zero() && !p.is_zero() && st.deg() != p.deg(), "adding homogeneous polynomials panics only for different degrees", &req, "panic");
                replies.push("panic".into()); s.count("hp.panic"); break;
            }
        }
    }
    s.count("type.hp");
    s.case(&req, &replies.join(";"), replies.len() > 1);
}

// ---------------------------------------------------------------------------------------------------------
// hand-written boundary corpus
// ---------------------------------------------------------------------------------------------------------
fn corpus(s: &mut Sink) {
    type P = PolyBase<Var<'x', usize>, i64>;
    type P3 = PolyBase<Var<'x', usize>, FF<3>>;
    type PN = PolyBase<MultiVar<'x', usize>, i64>;
    let x = |e: usize| Var::<'x', usize>::from(e);
    // (x-1)(x+1) = x^2 - 1, then + 1, then - x^2 = 0
    let f = P::from_iter([(x(1), 1), (x(0), -1)]);
    let g = P::from_iter([(x(1), 1), (x(0), 1)]);
    let h = &f * &g;
    s.case("hist p1 z 1:1,0:-1 mul2=1:1,0:1 add2=0:1 sub2=2:1 iz nt lt",
        &format!("{};{};{};{};{};{};{}", terms_txt(&f), terms_txt(&h), terms_txt(&(&h + &P::one())), terms_txt(&(&(&h + &P::one()) - &P::from(x(2)))),
            (&(&h + &P::one()) - &P::from(x(2))).is_zero(), (&(&h + &P::one()) - &P::from(x(2))).nterms(), lt_txt(&(&(&h + &P::one()) - &P::from(x(2))))), true);
    s.oracle(terms_txt(&h) == "0:-1,2:1", "operations on polynomials are those of the polynomial ring over the coefficient ring", "(x-1)(x+1)", &terms_txt(&h));
    // (x+1)^3 = x^3 + 1 over F_3
    let o = FF::<3>::new(1);
    let a = P3::from_iter([(x(1), o), (x(0), o)]);
    let c = &(&a * &a) * &a;
    s.case("hist p1 f3 1:1,0:1 mul2=1:1,0:1 mul2=1:1,0:1", &format!("{};{};{}", terms_txt(&a), terms_txt(&(&a * &a)), terms_txt(&c)), true);
    s.oracle(terms_txt(&c) == "0:1,3:1", "operations on polynomials are those of the polynomial ring over the coefficient ring", "(x+1)^3 over F_3", &terms_txt(&c));
    // f + f + f = 0 over F_3; 3.f = 0
    let t = &(&a + &a) + &a;
    s.oracle(t.is_zero() && t.nterms() == 0 && t == P3::zero(), "a value never stores a zero coefficient or zero exponent (after any sequence of operations)", "f+f+f over F_3", &terms_txt(&t));
    s.case("hist p1 f3 1:1,0:1 add2=1:1,0:1 add2=1:1,0:1 iz smul0=0", &format!("{};{};{};{};{}", terms_txt(&a), terms_txt(&(&a + &a)), terms_txt(&t), t.is_zero(), terms_txt(&(&t * &FF::<3>::new(0)))), true);
    // *= special cases: rhs one, rhs zero, rhs const, self const, self zero
    let k = P::from_const(2);
    let z = P::zero();
    s.case("hist p1 z 1:1,0:-1 mul0=0:1 mul0=0:2 rmul0=0:2 mul0=0 rmul0=1:1,0:-1 mul0=0:0 io ic",
        &format!("{};{};{};{};{};{};{};{};{}", terms_txt(&f), terms_txt(&(&f * &P::one())), terms_txt(&(&f * &k)), terms_txt(&(&k * &(&f * &k))),
            terms_txt(&(&(&k * &(&f * &k)) * &z)), terms_txt(&(&f * &z)), terms_txt(&(&z * &P::from_const(0))), z.is_one(), z.is_const()), true);
    s.oracle((&f * &z).is_zero() && (&z * &f).is_zero() && (&f * &k) == (&k * &f), "ring axioms hold", "f*0, 0*f, f*2 = 2*f", "");
    // multivariate: zero exponents in constructors, x0 * x0^-1 style cancellation impossible for usize; product merges
    let m = |ps: &[(usize, usize)]| MultiVar::<'x', usize>::from_iter(ps.iter().cloned());
    let p = PN::from_iter([(m(&[(0, 1), (1, 0)]), 1), (m(&[(0, 1)]), -1), (m(&[]), 2)]);
    s.case("hist pn z 0^1.1^0:1,0^1:-1,1:2 nt lt", &format!("{};{};{}", terms_txt(&p), p.nterms(), lt_txt(&p)), true);
    s.oracle(terms_txt(&p) == "1:2" && invariant_ok(&p).is_ok(), "a value never stores a zero coefficient or zero exponent (after any sequence of operations)", "x0 x1^0 - x0 + 2", &terms_txt(&p));
    // Laurent: x * x^-1 = 1 stores no zero exponent
    type LN = PolyBase<MultiVar<'x', isize>, i64>;
    let lm = |ps: &[(usize, isize)]| MultiVar::<'x', isize>::from_iter(ps.iter().cloned());
    let u = LN::from(lm(&[(0, 1), (2, -2)]));
    let v = LN::from(lm(&[(0, -1), (2, 2)]));
    let w = &u * &v;
    s.case("hist ln z 0^1.2^-2:1 lcmul=0^-1.2^2:1 io mul2=0^-1.2^2:1", &format!("{};{};{};{}", terms_txt(&u), terms_txt(&w), w.is_one(), terms_txt(&(&w * &v))), true);
    s.oracle(w.is_one() && invariant_ok(&w).is_ok(), "a value never stores a zero coefficient or zero exponent (after any sequence of operations)", "x0 x2^-2 * x0^-1 x2^2", &terms_txt(&w));
    {
        let (a, b) = (lm(&[]), lm(&[(2, -1)]));
        s.case("mono ln cmp 1 2^-1", &format!("{} {}", ord_txt(MonoOrd::cmp_lex(&a, &b)), ord_txt(MonoOrd::cmp_grlex(&a, &b))), true);
        let (a, b) = (m(&[(3, 1)]), m(&[]));
        s.case("mono pn cmp 3^1 1", &format!("{} {}", ord_txt(MonoOrd::cmp_lex(&a, &b)), ord_txt(MonoOrd::cmp_grlex(&a, &b))), true);
        let d = |ps: &[(usize, usize)]| MultiDeg::<usize>::from_iter(ps.iter().cloned());
        let sub = |a: MultiDeg<usize>, b: MultiDeg<usize>| guard(|| a - b).map(|d| pairs_txt(&mdeg_pairs(&d))).unwrap_or("panic".into());
        s.case("mono pn sub 0^1 0^1", &sub(d(&[(0, 1)]), d(&[(0, 1)])), true);
        s.case("mono pn sub 0^1 0^2", &sub(d(&[(0, 1)]), d(&[(0, 2)])), true);
        s.case("mono pn sub 1 1^0", &sub(d(&[]), d(&[(1, 0)])), true);
        s.case("mono pn sub 1 1^1", &sub(d(&[]), d(&[(1, 1)])), true);
    }
    // `variable`, `one`, `zero`, `from_const` constructors
    {
        type P2 = PolyBase<Var2<'x', 'y', usize>, i64>;
        type Q3 = PolyBase<Var3<'x', 'y', 'z', isize>, i64>;
        s.case("hist p1 z 1:1", &terms_txt(&P::variable()), true);
        s.case("hist p2 z 1.0:1", &terms_txt(&P2::variable(0)), true);
        s.case("hist p2 z 0.1:1", &terms_txt(&P2::variable(1)), true);
        s.case("hist l3 z 0.0.1:1", &terms_txt(&Q3::variable(2)), true);
        s.case("hist pn z 2^1:1", &terms_txt(&PN::variable(2)), true);
        s.case("hist ln z 0^1:1", &terms_txt(&LN::variable(0)), true);
        s.case("hist pn z 1:1", &terms_txt(&PN::one()), true);
        s.case("hist pn z 0", &terms_txt(&PN::zero()), true);
        s.case("hist pn z 1:0", &terms_txt(&PN::from_const(0)), true);
        s.case("hist p1 f3 0:3", &terms_txt(&P3::from_const(FF::<3>::new(3))), true);
        s.oracle(PN::from_const(0).is_zero() && PN::from_const(0) == PN::zero() && P2::variable(1).nterms() == 1, "a value never stores a zero coefficient or zero exponent (after any sequence of operations)", "from_const(0)", "");
    }
    s.case("garbage", "bad-request", false);
    s.case("hist p1 z 1:x", "bad-request", false);
    s.count("corpus");
}

// ---------------------------------------------------------------------------------------------------------
fn run_type<X: MK>(s: &mut Sink, r: &mut Rng, nh: usize, nops: usize, max_terms: usize, nax: usize) {
    macro_rules! ring { ($R:ty) => {{
        for i in 0..nh {
            let mt = if i % 5 == 0 { max_terms } else { 8 };
            let desc = format!("history {} {}", X::TAG, <$R as RK>::TAG);
            guarded_case(s, &desc, |s| history::<X, $R>(s, r, nops, mt));
        }
        for _ in 0..nax { guarded_case(s, "axioms", |s| axioms::<X, $R>(s, r, 5)); }
    }}; }
    ring!(i64);
    ring!(Ratio<i64>);
    ring!(FF<3>);
    ring!(GaussInt<i64>);
    guarded_case(s, "monomials", |s| mono_cases::<X>(s, r, nh * 4));
}

/// all monomials with exponents in a small box: order laws on all triples
fn exhaustive_orders<X: MK>(s: &mut Sink, all: Vec<(X, String)>) {
    for a in &all { for b in &all { for c in &all { order_laws(s, a, b, c); } } }
    s.count_n(&format!("exhaustive.order-triples.{}", X::TAG), (all.len() as u64).pow(3));
}

fn main() {
    let args = Args::parse();
    quiet_panics();
    let mut s = Sink::new(&args, "a history is non-trivial when it contains at least one state-changing operation; monomial cases always");
    let mut r = Rng::new(args.seed);
    corpus(&mut s);
    let th = args.thorough();
    let (nh, nops, mt, nax) = if th { (3000, 20, 24, 1500) } else { (300, 14, 24, 150) };
    run_type::<Var<'x', usize>>(&mut s, &mut r, nh, nops, mt, nax);
    run_type::<Var<'x', isize>>(&mut s, &mut r, nh, nops, mt, nax);
    run_type::<Var2<'x', 'y', usize>>(&mut s, &mut r, nh, nops, mt, nax);
    run_type::<Var2<'x', 'y', isize>>(&mut s, &mut r, nh, nops, mt, nax);
    run_type::<Var3<'x', 'y', 'z', usize>>(&mut s, &mut r, nh, nops, mt, nax);
    run_type::<Var3<'x', 'y', 'z', isize>>(&mut s, &mut r, nh, nops, mt, nax);
    run_type::<MultiVar<'x', usize>>(&mut s, &mut r, nh, nops, mt, nax);
    run_type::<MultiVar<'x', isize>>(&mut s, &mut r, nh, nops, mt, nax);
    for _ in 0..nh {
        guarded_case(&mut s, "lc", |s| lc_history::<i64>(s, &mut r, nops, mt));
        guarded_case(&mut s, "lc", |s| lc_history::<Ratio<i64>>(s, &mut r, nops, mt));
        guarded_case(&mut s, "lc", |s| lc_history::<FF<3>>(s, &mut r, nops, mt));
        guarded_case(&mut s, "lc", |s| lc_history::<GaussInt<i64>>(s, &mut r, nops, mt));
        guarded_case(&mut s, "hp", |s| hp_history::<i64>(s, &mut r, nops));
        guarded_case(&mut s, "hp", |s| hp_history::<Ratio<i64>>(s, &mut r, nops));
        guarded_case(&mut s, "hp", |s| hp_history::<FF<3>>(s, &mut r, nops));
    }
    guarded_case(&mut s, "mdeg", |s| mdeg_cases(s, &mut r, if th { 30000 } else { 3000 }));

    // exhaustive small spaces
    {
        let lim: i64 = if th { 2 } else { 1 };
        let v2: Vec<(Var2<'x', 'y', isize>, String)> = (-lim..=lim).flat_map(|a| (-lim..=lim).map(move |b|
            (Var2::from((a as isize, b as isize)), format!("{}.{}", a, b)))).collect();
        exhaustive_orders(&mut s, v2);
        let mut mv: Vec<(MultiVar<'x', isize>, String)> = vec![];
        for a in -1..=1i64 { for b in -1..=1i64 { for c in -1..=1i64 {
            if !th && c != 0 && a != 0 { continue; }
            let ps = vec![(0usize, a as isize), (1usize, b as isize), (3usize, c as isize)];
            mv.push((MultiVar::from_iter(ps.clone()), pairs_txt(&ps)));
        } } }
        exhaustive_orders(&mut s, mv);
        let mut mu: Vec<(MultiVar<'x', usize>, String)> = vec![];
        for a in 0..=(lim as usize) { for b in 0..=(lim as usize) { for c in 0..=1usize {
            let ps = vec![(0usize, a), (2usize, b), (3usize, c)];
            mu.push((MultiVar::from_iter(ps.clone()), pairs_txt(&ps)));
        } } }
        exhaustive_orders(&mut s, mu);
        let v3: Vec<(Var3<'x', 'y', 'z', usize>, String)> = (0..=lim).flat_map(|a| (0..=lim).flat_map(move |b| (0..=lim).map(move |c|
            (Var3::from((a as usize, b as usize, c as usize)), format!("{}.{}.{}", a, b, c))))).collect();
        exhaustive_orders(&mut s, v3);
    }
    s.finish();
}
